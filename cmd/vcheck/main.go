// vcheck is the orchestrator: `vcheck run <Cxx> [--tier quick|thorough]`.
package main

import (
	"fmt"
	"os"
	"sort"

	"verif/checks"
	"verif/core"
)

func usage() {
	fmt.Fprintln(os.Stderr, "usage: vcheck run <Cxx> [--tier quick|thorough] | vcheck list")
	os.Exit(64)
}

func main() {
	if len(os.Args) < 2 {
		usage()
	}
	switch os.Args[1] {
	case "list":
		var ids []string
		for k := range checks.Registry {
			ids = append(ids, k)
		}
		sort.Strings(ids)
		for _, k := range ids {
			fmt.Println(k)
		}
	case "run":
		if len(os.Args) < 3 {
			usage()
		}
		id := os.Args[2]
		tier := os.Getenv("VERIF_TIER")
		for i := 3; i < len(os.Args); i++ {
			if os.Args[i] == "--tier" && i+1 < len(os.Args) {
				tier = os.Args[i+1]
				i++
			}
		}
		if tier != "thorough" {
			tier = "quick"
		}
		chk, ok := checks.Registry[id]
		if !ok {
			fmt.Fprintln(os.Stderr, "unknown property", id)
			os.Exit(64)
		}
		r, err := core.NewRun(id, tier)
		if err != nil {
			fmt.Fprintln(os.Stderr, "setup:", err)
			os.Exit(3)
		}
		code := chk(r)
		r.Cleanup()
		os.Exit(code)
	default:
		usage()
	}
}
