//go:build verif

// vgen is the in-process generator harness: it links the goag found in /repo
// (replace directive) with the `verif` build tag and runs one generator
// invocation per JSONL job under recover(), recording the error / panic, the
// templates executed (hook), the log output and the sha256 of every file
// left in the output directory.
package main

import (
	"bufio"
	"bytes"
	"crypto/sha256"
	"encoding/base64"
	"encoding/hex"
	"encoding/json"
	"fmt"
	"log"
	"os"
	"path/filepath"
	"runtime/debug"
	"sort"
	"time"

	"github.com/getkin/kin-openapi/openapi3"
	"github.com/vkd/goag"
	"github.com/vkd/goag/generator"
)

type Job struct {
	ID        string `json:"id"`
	Mode      string `json:"mode"` // "file" (default), "raw", "load"
	Spec      string `json:"spec"` // spec file path
	Out       string `json:"out"`
	Package   string `json:"package"`
	BasePath  string `json:"basepath"`
	Cfg       string `json:"cfg"` // config file path ("" = none)
	SpecName  string `json:"spec_name"`
	Client    bool   `json:"client"`
	NoAPI     bool   `json:"no_api"`
	DoNotEdit bool   `json:"donotedit"`
	RawB64    string `json:"raw_b64"` // mode raw: bytes given as specRaw
	Repeat    int    `json:"repeat"`  // run the job this many times (>=1), hashing after each
}

type Result struct {
	ID         string              `json:"id"`
	OK         bool                `json:"ok"`
	Err        string              `json:"err,omitempty"`
	Panic      string              `json:"panic,omitempty"`
	Stack      string              `json:"stack,omitempty"`
	LoadErr    string              `json:"load_err,omitempty"`   // the kin-openapi loader refused the document
	LoadPanic  string              `json:"load_panic,omitempty"` // the loader itself panicked
	Log        string              `json:"log,omitempty"`
	Templates  []string            `json:"templates,omitempty"`
	Files      map[string]string   `json:"files,omitempty"`
	RepeatSums []map[string]string `json:"repeat_sums,omitempty"`
	RepeatOK   []bool              `json:"repeat_ok,omitempty"`
	DurUS      int64               `json:"dur_us"`
}

func hashDir(dir string) map[string]string {
	out := map[string]string{}
	es, err := os.ReadDir(dir)
	if err != nil {
		return out
	}
	for _, e := range es {
		if e.IsDir() {
			continue
		}
		bs, err := os.ReadFile(filepath.Join(dir, e.Name()))
		if err != nil {
			continue
		}
		h := sha256.Sum256(bs)
		out[e.Name()] = hex.EncodeToString(h[:])
	}
	return out
}

func runOnce(j Job, res *Result, tmpl map[string]bool) {
	defer func() {
		if p := recover(); p != nil {
			res.Panic = fmt.Sprint(p)
			res.Stack = string(debug.Stack())
		}
	}()
	generator.VerifTemplateHook = func(name string) { tmpl[name] = true }
	g := goag.Generator{GenClient: j.Client, GenAPIHandler: !j.NoAPI, DoNotEdit: j.DoNotEdit}
	var err error
	switch j.Mode {
	case "raw":
		raw, derr := base64.StdEncoding.DecodeString(j.RawB64)
		if derr != nil {
			res.Err = "bad raw_b64: " + derr.Error()
			return
		}
		doc, lerr := openapi3.NewSwaggerLoader().LoadSwaggerFromFile(j.Spec)
		if lerr != nil {
			res.LoadErr = lerr.Error()
			return
		}
		cfg, cerr := generator.LoadConfig(j.Cfg)
		if cerr != nil {
			res.Err = cerr.Error()
			return
		}
		name := j.SpecName
		if name == "" {
			name = filepath.Base(j.Spec)
		}
		err = g.Generate(doc, j.Out, j.Package, raw, name, j.BasePath, cfg)
	default:
		// first find out whether the loader accepts the document (domain of C15)
		func() {
			defer func() {
				if p := recover(); p != nil {
					res.LoadPanic = fmt.Sprint(p)
				}
			}()
			_, lerr := openapi3.NewSwaggerLoader().LoadSwaggerFromFile(j.Spec)
			if lerr != nil {
				res.LoadErr = lerr.Error()
			}
		}()
		if res.LoadPanic != "" {
			return
		}
		err = g.GenerateFile(j.Out, j.Package, j.Spec, j.BasePath, j.Cfg, j.SpecName)
	}
	if err != nil {
		res.Err = err.Error()
		if res.Err == "" {
			res.Err = "<empty error message>"
		}
		return
	}
	res.OK = true
}

func main() {
	if len(os.Args) < 3 {
		fmt.Fprintln(os.Stderr, "usage: vgen <jobs.jsonl> <results.jsonl> [marker]")
		os.Exit(2)
	}
	in, err := os.Open(os.Args[1])
	if err != nil {
		fmt.Fprintln(os.Stderr, err)
		os.Exit(2)
	}
	defer in.Close()
	out, err := os.OpenFile(os.Args[2], os.O_CREATE|os.O_WRONLY|os.O_APPEND, 0o644)
	if err != nil {
		fmt.Fprintln(os.Stderr, err)
		os.Exit(2)
	}
	defer out.Close()
	marker := ""
	if len(os.Args) > 3 {
		marker = os.Args[3]
	}
	sc := bufio.NewScanner(in)
	sc.Buffer(make([]byte, 1<<20), 1<<28)
	for sc.Scan() {
		line := bytes.TrimSpace(sc.Bytes())
		if len(line) == 0 {
			continue
		}
		var j Job
		if err := json.Unmarshal(line, &j); err != nil {
			fmt.Fprintln(os.Stderr, "bad job:", err)
			os.Exit(2)
		}
		if marker != "" {
			_ = os.WriteFile(marker, []byte(j.ID), 0o644)
		}
		if j.Package == "" {
			j.Package = "gen"
		}
		res := Result{ID: j.ID}
		var logbuf bytes.Buffer
		log.SetOutput(&logbuf)
		log.SetFlags(0)
		tmpl := map[string]bool{}
		n := j.Repeat
		if n < 1 {
			n = 1
		}
		t0 := time.Now()
		for i := 0; i < n; i++ {
			res.OK, res.Err, res.Panic = false, "", ""
			runOnce(j, &res, tmpl)
			if n > 1 {
				res.RepeatSums = append(res.RepeatSums, hashDir(j.Out))
				res.RepeatOK = append(res.RepeatOK, res.OK)
				continue // every repetition runs: their verdicts are compared too
			}
			if !res.OK {
				break
			}
		}
		res.DurUS = time.Since(t0).Microseconds()
		res.Log = logbuf.String()
		for k := range tmpl {
			res.Templates = append(res.Templates, k)
		}
		sort.Strings(res.Templates)
		res.Files = hashDir(j.Out)
		bs, _ := json.Marshal(res)
		out.Write(append(bs, '\n'))
	}
	if marker != "" {
		_ = os.WriteFile(marker, []byte(""), 0o644)
	}
}
