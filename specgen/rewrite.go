package specgen

import (
	"fmt"
	"math/rand"
	"sort"
	"strings"
)

// Rewrites for C18: inline-all replaces every $ref by a copy of its target;
// hoist moves inline definitions into components. Both preserve the meaning
// of the document.

func derefOnce(root M, ref string) (any, bool) {
	parts := strings.Split(strings.TrimPrefix(ref, "#/"), "/")
	var cur any = root
	for _, p := range parts {
		m, ok := cur.(M)
		if !ok {
			return nil, false
		}
		cur, ok = m[p]
		if !ok {
			return nil, false
		}
	}
	return cur, true
}

// InlineAll returns a copy of the document in which no $ref is left beneath
// "paths" (components stay, unused). Only the reference kinds listed in
// `kinds` are inlined (e.g. "schemas", "parameters", "headers",
// "requestBodies", "responses").
func InlineAll(doc M, kinds map[string]bool) M {
	out := CloneM(doc)
	var walk func(v any, depth int) any
	noSchema := 0 // > 0 while beneath additionalProperties / allOf (unless kinds["schemas-everywhere"])
	walk = func(v any, depth int) any {
		switch t := v.(type) {
		case M:
			if ref, ok := t["$ref"].(string); ok && depth < 24 {
				parts := strings.Split(strings.TrimPrefix(ref, "#/"), "/")
				if len(parts) == 3 && kinds[parts[1]] && !(parts[1] == "schemas" && noSchema > 0 && !kinds["schemas-everywhere"]) {
					if target, ok := derefOnce(out, ref); ok {
						if tm, isM := target.(M); isM && tm["oneOf"] != nil && !kinds["schemas-everywhere"] {
							return t // an inline oneOf gets no codec (recorded finding, fixed pair below)
						}
						return walk(Clone(target), depth+1)
					}
				}
				return t
			}
			for k, x := range t {
				guarded := k == "additionalProperties" || k == "allOf" || k == "oneOf"
				if guarded {
					noSchema++
				}
				t[k] = walk(x, depth)
				if guarded {
					noSchema--
				}
			}
			return t
		case L:
			for i, x := range t {
				t[i] = walk(x, depth)
			}
			return t
		}
		return v
	}
	out["paths"] = walk(out["paths"], 0)
	return out
}

// Hoist moves inline parameter objects, parameter schemas, response headers,
// request bodies, responses and object-kind body schemas beneath "paths" into
// components; with p < 1 only a seeded part of them.
func Hoist(doc M, rng *rand.Rand, p float64) M {
	out := CloneM(doc)
	d := &Doc{Root: out}
	n := 0
	name := func(prefix string) string {
		n++
		return fmt.Sprintf("%sHoisted%s", prefix, strings.ToUpper(letters(n)))
	}
	take := func() bool { return p >= 1 || rng.Float64() < p }
	_ = fmt.Sprint
	isRef := func(v any) bool {
		m, ok := v.(M)
		if !ok {
			return true
		}
		_, r := m["$ref"]
		return r
	}
	hoistSchema := func(holder M, key string) {
		s, ok := holder[key].(M)
		if !ok || isRef(s) || !take() {
			return
		}
		// parameter / header / body schemas: any kind may become a component
		cn := name("S")
		d.Comp("schemas", cn, s)
		holder[key] = Ref("schemas", cn)
	}
	paths, _ := out["paths"].(M)
	for _, pk := range sortedKeys(paths) {
		pi, _ := paths[pk].(M)
		hoistParams := func(holder M) {
			ps, _ := holder["parameters"].(L)
			for i, pv := range ps {
				pm, ok := pv.(M)
				if !ok || isRef(pm) {
					continue
				}
				// array item schemas stay inline (a $ref'd array schema in a parameter is a recorded finding)
				if s, ok := pm["schema"].(M); ok && s["type"] != "array" {
					hoistSchema(pm, "schema")
				}
				if take() {
					cn := name("P")
					d.Comp("parameters", cn, pm)
					ps[i] = Ref("parameters", cn)
				}
			}
		}
		hoistParams(pi)
		for _, mk := range sortedKeys(pi) {
			op, ok := pi[mk].(M)
			if !ok || mk == "parameters" {
				continue
			}
			hoistParams(op)
			if rb, ok := op["requestBody"].(M); ok && !isRef(rb) {
				if c, ok := rb["content"].(M); ok {
					if mt, ok := c["application/json"].(M); ok {
						if s, ok := mt["schema"].(M); ok && (s["type"] == "object" || s["allOf"] != nil) {
							hoistSchema(mt, "schema")
						}
					}
				}
				_, isJSON := rb["content"].(M)["application/json"]
				if (!isJSON || p > 1) && take() {
					// JSON bodies stay inline: a component request body gets a Go type without
					// codec (recorded finding, exercised by the fixed pair below); p > 1 forces it
					cn := name("B")
					d.Comp("requestBodies", cn, rb)
					op["requestBody"] = Ref("requestBodies", cn)
				}
			}
			resps, _ := op["responses"].(M)
			for _, st := range sortedKeys(resps) {
				r, ok := resps[st].(M)
				if !ok || isRef(r) {
					continue
				}
				if hs, ok := r["headers"].(M); ok {
					for _, hn := range sortedKeys(hs) {
						h, ok := hs[hn].(M)
						if !ok || isRef(h) {
							continue
						}
						if s, ok := h["schema"].(M); ok && s["type"] != "array" {
							hoistSchema(h, "schema")
							if take() {
								cn := name("H")
								d.Comp("headers", cn, h)
								hs[hn] = Ref("headers", cn)
							}
						}
					}
				}
				if c, ok := r["content"].(M); ok {
					if mt, ok := c["application/json"].(M); ok {
						if s, ok := mt["schema"].(M); ok && (s["type"] == "object" || s["allOf"] != nil) {
							hoistSchema(mt, "schema")
						}
					}
				}
				if take() {
					cn := name("R")
					d.Comp("responses", cn, r)
					resps[st] = Ref("responses", cn)
				}
			}
		}
	}
	return out
}

// InlineOneOfMembers replaces the $ref members of every oneOf WITHOUT
// discriminator in components.schemas by inline copies of their targets
// (object members only). Returns false when the document has no such oneOf.
func InlineOneOfMembers(doc M) (M, bool) {
	out := CloneM(doc)
	comps, _ := out["components"].(M)
	schemas, _ := comps["schemas"].(M)
	changed := false
	for _, name := range sortedKeys(schemas) {
		s, ok := schemas[name].(M)
		if !ok {
			continue
		}
		members, ok := s["oneOf"].(L)
		if !ok || s["discriminator"] != nil {
			continue
		}
		for i, m := range members {
			mm, ok := m.(M)
			if !ok {
				continue
			}
			ref, ok := mm["$ref"].(string)
			if !ok {
				continue
			}
			target, ok := derefOnce(out, ref)
			if tm, isM := target.(M); ok && isM && tm["type"] == "object" {
				members[i] = Clone(tm)
				changed = true
			}
		}
	}
	return out, changed
}

// InlineAllOfMembers replaces the $ref members of every allOf in
// components.schemas that point to a plain object schema (no composition, no
// additionalProperties of its own) by inline copies. Returns false when the
// document has no such member.
func InlineAllOfMembers(doc M) (M, bool) {
	out := CloneM(doc)
	comps, _ := out["components"].(M)
	schemas, _ := comps["schemas"].(M)
	changed := false
	for _, name := range sortedKeys(schemas) {
		s, ok := schemas[name].(M)
		if !ok {
			continue
		}
		members, ok := s["allOf"].(L)
		if !ok {
			continue
		}
		for i, m := range members {
			mm, ok := m.(M)
			if !ok {
				continue
			}
			ref, ok := mm["$ref"].(string)
			if !ok {
				continue
			}
			target, ok := derefOnce(out, ref)
			tm, isM := target.(M)
			if !ok || !isM || tm["type"] != "object" || tm["additionalProperties"] != nil || tm["allOf"] != nil || tm["oneOf"] != nil {
				continue
			}
			plain := true
			for _, pv := range asMap(tm["properties"]) {
				if pm, ok := pv.(M); ok && (pm["type"] == "object" || pm["allOf"] != nil || pm["oneOf"] != nil) {
					plain = false // nested inline objects inside an inline member: recorded C01 finding
				}
			}
			if plain {
				members[i] = Clone(tm)
				changed = true
			}
		}
	}
	return out, changed
}

func asMap(v any) M {
	m, _ := v.(M)
	return m
}

// AliasChains replaces, with probability p each, the $ref to a parameter,
// header, request body or response component by a $ref to a fresh alias
// component that reaches the same target through 1-3 hops ("through any
// chain of aliases"). Schema components are left alone: a schema that is a
// bare $ref becomes a Go type definition without codec (recorded finding).
func AliasChains(doc M, rng *rand.Rand, p float64) M {
	out := CloneM(doc)
	comps, _ := out["components"].(M)
	if comps == nil {
		return out
	}
	kinds := map[string]bool{"parameters": true, "headers": true, "requestBodies": true, "responses": true}
	n := 0
	var walk func(v any)
	walk = func(v any) {
		switch t := v.(type) {
		case M:
			for _, k := range sortedKeysM(t) {
				walk(t[k])
			}
			ref, ok := t["$ref"].(string)
			if !ok {
				return
			}
			parts := strings.Split(strings.TrimPrefix(ref, "#/"), "/")
			if len(parts) != 3 || parts[0] != "components" || !kinds[parts[1]] {
				return
			}
			if rng.Float64() >= p {
				return
			}
			km, _ := comps[parts[1]].(M)
			if km == nil {
				return
			}
			hops := 1 + rng.Intn(3)
			target := ref
			for h := 0; h < hops; h++ {
				name := parts[2] + "Alias" + letters(n) + letters(h)
				km[name] = M{"$ref": target}
				target = "#/components/" + parts[1] + "/" + name
			}
			n++
			t["$ref"] = target
		case L:
			for _, x := range t {
				walk(x)
			}
		}
	}
	walk(out["paths"])
	// references between components (a shared response naming a shared
	// header); the alias entries made above are not walked again
	for _, kind := range []string{"responses", "requestBodies", "parameters"} {
		if km, ok := comps[kind].(M); ok {
			for _, name := range sortedKeysM(km) {
				if strings.Contains(name, "Alias") {
					continue
				}
				walk(km[name])
			}
		}
	}
	return out
}

func sortedKeysM(m M) []string {
	ks := make([]string, 0, len(m))
	for k := range m {
		ks = append(ks, k)
	}
	sort.Strings(ks)
	return ks
}

// RefPairs builds the C18 corpus: for every base spec its inline-all,
// hoist-all and a seeded partial rewrite. Aux["pair"] names the base.
func RefPairs(seed int64, n int) []Case {
	rng := rand.New(rand.NewSource(seed*389 + 1))
	var bases []Case
	bases = append(bases, ParamCases(seed, n)...)
	bases = append(bases, ResponseCases(seed, n)...)
	bases = append(bases, SchemaCases(seed, n, false)...)
	bases = append(bases, KitchenSinks()...)
	var out []Case
	// fixed pairs that exhibit recorded findings (exact case ids in known_findings.json)
	fx := func(id string, orig, variant M, vn string) {
		for _, x := range []struct {
			n string
			s M
		}{{"orig", orig}, {vn, variant}} {
			out = append(out, Case{ID: "c18/" + id + "/" + x.n, Family: "refpair", Spec: x.s, Flags: Flags{Client: true},
				Aux: M{"pair": id, "variant": x.n}, Label: map[string]string{"set": id, "base": x.n}})
		}
	}
	{
		pet := Obj([]string{"name"}, M{"name": Prim("string", ""), "age": Prim("integer", ""), "tags": Arr(Prim("string", ""))})
		a := NewDoc("fixed")
		a.Comp("schemas", "Pet", CloneM(pet))
		a.Op("/t", "post", M{"requestBody": M{"required": true, "content": JSONContent(Ref("schemas", "Pet"))}})
		fx("fixed-component-json-request-body", a.Root, Hoist(a.Root, rng, 2), "hoist-request-body")
		b := NewDoc("fixed")
		b.Comp("schemas", "Pet", CloneM(pet))
		b.Comp("schemas", "Shelf", M{"type": "object", "additionalProperties": Ref("schemas", "Pet")})
		b.Op("/t", "post", M{"requestBody": M{"required": true, "content": JSONContent(M{"type": "object", "additionalProperties": Ref("schemas", "Pet")})}})
		fx("fixed-inline-additional-properties-object", b.Root, InlineAll(b.Root, map[string]bool{"schemas": true, "schemas-everywhere": true}), "inline-all-everywhere")
		c := NewDoc("fixed")
		c.Comp("schemas", "Base", Obj([]string{"id"}, M{"id": Prim("string", "")}))
		c.Comp("schemas", "Mid", M{"allOf": L{Ref("schemas", "Base"), Obj([]string{"m"}, M{"m": Prim("string", "")})}})
		c.Comp("schemas", "Leaf", M{"allOf": L{Ref("schemas", "Mid"), Obj(nil, M{"l": Prim("string", "")})}})
		c.Op("/t", "post", M{"requestBody": M{"required": true, "content": JSONContent(Ref("schemas", "Leaf"))}})
		e := NewDoc("fixed")
		e.Comp("schemas", "Cat", Obj([]string{"kind", "lives"}, M{"kind": Prim("string", ""), "lives": Prim("integer", "")}))
		e.Comp("schemas", "Dog", Obj([]string{"kind", "bark"}, M{"kind": Prim("string", ""), "bark": Prim("boolean", "")}))
		e.Comp("schemas", "Animal", M{"oneOf": L{Ref("schemas", "Cat"), Ref("schemas", "Dog")}, "discriminator": M{"propertyName": "kind"}})
		e.Op("/t", "post", M{"requestBody": M{"required": true, "content": JSONContent(Ref("schemas", "Animal"))}})
		fx("fixed-inline-oneof-request-body", e.Root, InlineAll(e.Root, map[string]bool{"schemas": true, "schemas-everywhere": true}), "inline-all-everywhere")
		g := NewDoc("fixed")
		g.Comp("schemas", "Tags", Arr(Prim("string", "")))
		g.Comp("schemas", "Page", Obj([]string{"tags"}, M{"tags": Ref("schemas", "Tags"), "more": Ref("schemas", "Tags"), "n": Prim("integer", "")}))
		g.Op("/t", "get", M{"responses": M{"200": M{"description": "ok", "content": JSONContent(Ref("schemas", "Page"))},
			"default": M{"description": "other", "content": JSONContent(Obj(nil, M{"tags": Ref("schemas", "Tags")}))}}})
		fx("fixed-array-component-property", g.Root, InlineAll(g.Root, map[string]bool{"schemas": true, "schemas-everywhere": true}), "inline-all-everywhere")
		fx("fixed-nested-inline-allof", c.Root, InlineAll(c.Root, map[string]bool{"schemas": true, "schemas-everywhere": true}), "inline-all-everywhere")
	}
	for _, b := range bases {
		if b.Spec == nil || !b.Safe {
			continue // fixed cases that carry a recorded finding are not rewritten
		}
		mk := func(variant string, spec M) {
			c := b
			c.ID = "c18/" + b.ID + "/" + variant
			c.Spec = spec
			c.Family = "refpair"
			c.Safe = false
			c.Aux = M{"pair": b.ID, "variant": variant}
			c.Label = map[string]string{"set": b.ID, "base": variant}
			out = append(out, c)
		}
		mk("orig", b.Spec)
		mk("inline-params-headers-bodies-responses", InlineAll(b.Spec, map[string]bool{"parameters": true, "headers": true, "requestBodies": true, "responses": true}))
		mk("inline-all", InlineAll(b.Spec, map[string]bool{"parameters": true, "headers": true, "requestBodies": true, "responses": true, "schemas": true}))
		if v, ok := InlineOneOfMembers(b.Spec); ok {
			mk("inline-oneof-members", v)
		}
		if v, ok := InlineAllOfMembers(b.Spec); ok {
			mk("inline-allof-members", v)
		}
		mk("hoist-all", Hoist(b.Spec, rng, 1))
		mk("hoist-partial", Hoist(b.Spec, rng, 0.5))
		mk("alias-chains", AliasChains(b.Spec, rng, 0.7))
		mk("hoist-then-alias-chains", AliasChains(Hoist(b.Spec, rng, 1), rng, 1))
	}
	return out
}
