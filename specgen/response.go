package specgen

import (
	"fmt"
	"math/rand"
)

// Response family (C02, C10): operations x response sets (numbered statuses,
// default, inline / component / alias), header types required / optional,
// body kinds (none, JSON of several schema kinds, raw), component responses
// shared by several operations and statuses.

var respHeaderSchemas = []M{
	{"type": "string"}, {"type": "integer"}, {"type": "integer", "format": "int64"}, {"type": "integer", "format": "int32"},
	{"type": "number"}, {"type": "boolean"}, {"type": "string", "format": "date-time"},
	{"type": "array", "items": M{"type": "string"}}, {"type": "array", "items": M{"type": "integer", "format": "int64"}},
}

type respGen struct {
	rng *rand.Rand
	d   *Doc
	n   int
}

func (g *respGen) headers() M {
	hs := M{}
	n := g.rng.Intn(4)
	for i := 0; i < n; i++ {
		h := M{"schema": CloneM(respHeaderSchemas[g.rng.Intn(len(respHeaderSchemas))])}
		if g.rng.Intn(2) == 0 {
			h["required"] = true
		}
		name := []string{"X-Rate", "X-Next", "ETag", "X-Count", "Last-Seen", "X-Flags", "Content-Disposition", "Content-Language", "content-range"}[g.rng.Intn(9)] + "-" + letters(i)
		if g.rng.Intn(6) == 0 {
			// a standard name without suffix (Content-Type itself is not a declarable header)
			name = []string{"Content-Disposition", "Content-Language", "Location", "Retry-After", "Content-Security-Policy"}[g.rng.Intn(5)]
			if _, dup := hs[name]; dup {
				name += "-" + letters(i)
			}
		}
		if _, isArr := h["schema"].(M)["items"]; !isArr && g.rng.Intn(5) == 0 {
			// (array-typed component headers are refused cleanly by goag)
			g.n++
			cn := fmt.Sprintf("H%d", g.n)
			g.d.Comp("headers", cn, h)
			hs[name] = Ref("headers", cn)
		} else {
			hs[name] = h
		}
	}
	return hs
}

func (g *respGen) body() M {
	switch g.rng.Intn(13) {
	case 12:
		// a media type carrying a quoted parameter
		return M{"text/plain; charset=\"utf-8\"": M{"schema": Prim("string", "")}}
	case 11:
		// two JSON-flavoured media types (RFC 7807 style)
		return M{"application/json": M{"schema": Ref("schemas", "Err")}, "application/problem+json": M{"schema": Ref("schemas", "Item")}}
	case 9:
		// two media types for one response: JSON wins
		return M{"application/json": M{"schema": Ref("schemas", "Err")}, "application/octet-stream": M{"schema": M{"type": "string", "format": "binary"}}}
	case 10:
		return M{"text/csv": M{"schema": Prim("string", "")}, "application/octet-stream": M{"schema": M{"type": "string", "format": "binary"}}}
	case 0, 1:
		return nil
	case 2:
		return M{"application/json": M{"schema": Ref("schemas", "Item")}}
	case 3:
		return M{"application/json": M{"schema": Arr(Ref("schemas", "Item"))}}
	case 4:
		return M{"application/json": M{"schema": Obj([]string{"code"}, M{"code": Prim("integer", "int32"), "msg": Prim("string", "")})}}
	case 5:
		return M{"application/json": M{"schema": Ref("schemas", "Err")}}
	case 6:
		return M{"application/octet-stream": M{"schema": M{"type": "string", "format": "binary"}}}
	case 7:
		return M{"text/plain": M{"schema": Prim("string", "")}}
	}
	return M{"application/json": M{"schema": []M{Prim("string", ""), Prim("integer", "int64"), Prim("boolean", ""), Arr(Prim("string", "")), M{}}[g.rng.Intn(5)]}}
}

func (g *respGen) response(desc string) M {
	r := M{"description": desc}
	if hs := g.headers(); len(hs) > 0 {
		r["headers"] = hs
	}
	if b := g.body(); b != nil {
		r["content"] = b
	}
	return r
}

// ResponseCases returns n seeded response-family specs plus fixed ones.
func ResponseCases(seed int64, n int) []Case {
	rng := rand.New(rand.NewSource(seed*211 + 13))
	var out []Case
	for i, order := range [][2]string{{"default", "404"}, {"404", "default"}} {
		// one shared response used as default by one operation and as a numbered status by
		// another: goag must refuse it (the generated type cannot serve both)
		d := NewDoc("conflict")
		d.Comp("schemas", "Problem", Obj([]string{"title"}, M{"title": Prim("string", "")}))
		d.Comp("responses", "Problem", Resp("problem", Ref("schemas", "Problem")))
		d.Op("/first", "get", M{"responses": M{"200": M{"description": "ok"}, order[0]: Ref("responses", "Problem")}})
		d.Op("/second", "get", M{"responses": M{"200": M{"description": "ok"}, order[1]: Ref("responses", "Problem")}})
		id := fmt.Sprintf("resp-conflict-default-and-numbered-%d", i)
		out = append(out, Case{ID: id, Family: "response", Spec: d.Root, Flags: Flags{Client: true}, Safe: false, Label: map[string]string{"set": id}})
	}
	for i, order := range [][2]string{{"default", "404"}, {"404", "default"}} {
		// the same conflict reached through two names of one alias chain (body-less:
		// aliases of JSON-body responses are a recorded finding of their own)
		d := NewDoc("conflict-alias")
		d.Comp("responses", "Gone", M{"description": "gone", "headers": M{"X-Why": M{"schema": Prim("string", "")}}})
		d.Comp("responses", "Missing", Ref("responses", "Gone"))
		d.Op("/first", "get", M{"responses": M{"200": M{"description": "ok"}, order[0]: Ref("responses", "Gone")}})
		d.Op("/second", "get", M{"responses": M{"200": M{"description": "ok"}, order[1]: Ref("responses", "Missing")}})
		id := fmt.Sprintf("resp-conflict-through-alias-%d", i)
		out = append(out, Case{ID: id, Family: "response", Spec: d.Root, Flags: Flags{Client: true}, Safe: false, Label: map[string]string{"set": id}})
	}
	{
		// JSON documented with a parameter: the documented Content-Type is the key as written
		d := NewDoc("json-charset")
		d.Comp("schemas", "Pet", Obj([]string{"name"}, M{"name": Prim("string", ""), "age": Prim("integer", "int32")}))
		d.Comp("responses", "Pet", M{"description": "a pet", "content": M{"application/json; charset=utf-8": M{"schema": Ref("schemas", "Pet")}}})
		d.Comp("responses", "Error", Resp("error", Obj([]string{"message"}, M{"message": Prim("string", "")})))
		d.Op("/pets/{id}", "get", M{"parameters": L{ParamNode("id", "path", true, Prim("string", ""))},
			"responses": M{"200": Ref("responses", "Pet"), "404": Ref("responses", "Error")}})
		d.Op("/pets", "post", M{"responses": M{"201": Ref("responses", "Pet"),
			"400": M{"description": "inline", "content": M{"application/json;charset=UTF-8": M{"schema": Ref("schemas", "Pet")}}}}})
		{
			// one header component under two different header names: a header component
			// has no name of its own, the name is the key it is referenced under
			d := NewDoc("hdr-comp-names")
			d.Comp("headers", "Count", M{"schema": Prim("integer", "int64"), "required": true})
			d.Comp("headers", "Note", M{"schema": Prim("string", "")})
			d.Op("/limits", "get", M{"responses": M{"200": M{"description": "ok", "headers": M{"X-Rate-Limit": Ref("headers", "Count"), "X-Note": Ref("headers", "Note")}}}})
			d.Op("/usage", "get", M{"responses": M{"200": M{"description": "ok", "headers": M{"X-Rate-Remaining": Ref("headers", "Count"), "X-Remark": Ref("headers", "Note")}},
				"default": M{"description": "e", "headers": M{"X-Rate-Reset": Ref("headers", "Count")}}}})
			id := "resp-fixed-header-component-under-two-names"
			out = append(out, Case{ID: id, Family: "response", Spec: d.Root, Flags: Flags{Client: true}, Safe: true, Label: map[string]string{"set": id}})
		}
		id := "resp-fixed-json-media-type-with-charset"
		out = append(out, Case{ID: id, Family: "response", Spec: d.Root, Flags: Flags{Client: true}, Safe: false, Label: map[string]string{"set": id}})
	}
	{
		// one shared response under different statuses of several operations
		// (in path order: the first differs from the later ones, and the other way round)
		for vi, sts := range [][]string{{"410", "404", "404"}, {"404", "404", "410"}, {"404", "410", "404", "404"}} {
			d := NewDoc("shared-status")
			d.Comp("schemas", "Err", Obj([]string{"message"}, M{"message": Prim("string", "")}))
			d.Comp("responses", "Missing", Resp("missing", Ref("schemas", "Err")))
			for oi, st := range sts {
				d.Op("/p"+letters(oi), "get", M{"responses": M{"200": M{"description": "ok"}, st: Ref("responses", "Missing"), "409": Resp("c", Ref("schemas", "Err"))}})
			}
			id := fmt.Sprintf("resp-shared-status-%d", vi)
			out = append(out, Case{ID: id, Family: "response", Spec: d.Root, Flags: Flags{Client: true}, Safe: true, Label: map[string]string{"set": id}})
		}
	}
	for i := 0; i < n; i++ {
		d := NewDoc("responses")
		g := &respGen{rng: rng, d: d}
		d.Comp("schemas", "Item", Obj([]string{"id"}, M{"id": Prim("integer", "int64"), "name": Prim("string", ""), "tags": Arr(Prim("string", "")), "at": Prim("string", "date-time")}))
		d.Comp("schemas", "Err", Obj([]string{"message"}, M{"message": Prim("string", ""), "code": Prim("integer", "int32")}))
		// shared component responses; alias chains only for body-less / raw responses (JSON-body aliases: recorded C01 finding)
		nshared := 1 + rng.Intn(3)
		var shared []string
		for s := 0; s < nshared; s++ {
			name := fmt.Sprintf("Shared%s", letters(s))
			d.Comp("responses", name, g.response("shared "+name))
			shared = append(shared, name)
		}
		d.Comp("responses", "Plain", M{"description": "no content", "headers": M{"X-Plain": M{"schema": Prim("string", "")}}})
		d.Comp("responses", "PlainAlias", Ref("responses", "Plain"))
		d.Comp("responses", "PlainAlias2", Ref("responses", "PlainAlias"))
		nops := 2 + rng.Intn(4)
		usedDefault := map[string]bool{}
		usedNumbered := map[string]bool{}
		rootUsed := false
		for o := 0; o < nops; o++ {
			path := "/r" + letters(o)
			method := []string{"get", "post", "put", "delete"}[rng.Intn(4)]
			resps := M{}
			statuses := []string{"200", "201", "202", "204", "400", "404", "409", "500", "503"}
			rng.Shuffle(len(statuses), func(a, b int) { statuses[a], statuses[b] = statuses[b], statuses[a] })
			ns := 1 + rng.Intn(4)
			usedInOp := map[string]bool{} // goag refuses one component response used twice in an operation
			for _, st := range statuses[:ns] {
				switch rng.Intn(5) {
				case 0:
					sh := shared[rng.Intn(len(shared))]
					if usedDefault[sh] || usedInOp[sh] {
						resps[st] = g.response("inline " + st)
					} else {
						resps[st] = Ref("responses", sh)
						usedNumbered[sh] = true
						usedInOp[sh] = true
					}
				case 1:
					if usedInOp["Plain"] {
						resps[st] = g.response("inline " + st)
					} else {
						resps[st] = Ref("responses", []string{"Plain", "PlainAlias", "PlainAlias2"}[rng.Intn(3)])
						usedInOp["Plain"] = true
					}
				default:
					resps[st] = g.response("inline " + st)
				}
			}
			switch rng.Intn(4) {
			case 0:
			case 1:
				sh := shared[rng.Intn(len(shared))]
				if usedNumbered[sh] || usedInOp[sh] {
					resps["default"] = g.response("default")
				} else {
					resps["default"] = Ref("responses", sh)
					usedDefault[sh] = true
				}
			default:
				resps["default"] = g.response("default")
			}
			op := M{"responses": resps}
			if rng.Intn(3) == 0 {
				op["operationId"] = "op" + letters(o) + "Thing"
			}
			if rng.Intn(3) == 0 {
				path += "/"
			}
			// path shapes from which goag derives the operation name when
			// there is no operationId (two code sites must agree on it)
			switch rng.Intn(10) {
			case 0:
				if !rootUsed {
					path, rootUsed = "/", true
				}
			case 1:
				path = "/r" + letters(o) + "/{pid}"
				op["parameters"] = L{ParamNode("pid", "path", true, Prim("string", ""))}
			case 2:
				path = "/r" + letters(o) + "/{pid}/"
				op["parameters"] = L{ParamNode("pid", "path", true, Prim("integer", "int64"))}
			case 3:
				path = "/r-" + letters(o) + "/sub_part.v"
			}
			d.Op(path, method, op)
		}
		id := fmt.Sprintf("resp-rand-%04d", i)
		out = append(out, Case{ID: id, Family: "response", Spec: d.Root, Flags: Flags{Client: true}, Safe: true, Label: map[string]string{"set": id}})
	}
	return out
}
