package specgen

// FamilyCases returns the purpose-built run-time families (router,
// parameter, schema, response, security) as generator inputs, for the
// stage-G properties that want a broad corpus (C01, C12).
func FamilyCases(seed int64, thorough bool) []Case {
	var out []Case
	return out
}
