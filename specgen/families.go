package specgen

import "strings"

// FamilyCases returns the purpose-built run-time families (router,
// parameter, schema, response, security, cors, kitchen sinks) as generator
// inputs for the stage-G properties that want a broad corpus (C01, C12,
// C15). Every case marked Safe must generate and compile: C01 re-checks on
// every run that the safe sub-dialect is still clean.
func FamilyCases(seed int64, thorough bool) []Case {
	n := 12
	if thorough {
		n = 120
	}
	var out []Case
	out = append(out, KitchenSinks()...)
	out = append(out, RouterCases(seed, n)...)
	out = append(out, ParamCases(seed, n/2)...)
	out = append(out, SchemaCases(seed, n, false)...)
	out = append(out, ResponseCases(seed, n)...)
	out = append(out, CorsCases(seed, n)...)
	for i, c := range SecurityCases(seed, thorough) {
		if i%4 == 0 {
			out = append(out, c)
		}
	}
	out = append(out, ExtraCases()...)
	return out
}

// ExtraCases: fixed cells for findings that the matrix dimensions do not
// span (found while building the run-time families).
func ExtraCases() []Case {
	var out []Case
	add := func(id string, d *Doc, fl Flags) {
		out = append(out, Case{ID: "X=" + id, Family: "extra", Spec: d.Root, Flags: fl, Label: map[string]string{"X": id}})
	}
	{
		d := NewDoc("x")
		d.Op("/t", "get", M{"parameters": L{ParamNode("a", "query", true, Arr(Prim("integer", "int32"))), ParamNode("b", "query", true, Arr(Prim("integer", "int64")))}})
		add("two-required-array-query-params-client", d, Flags{Client: true})
		d2 := NewDoc("x")
		d2.Op("/t", "get", M{"parameters": L{ParamNode("a", "query", true, Arr(Prim("integer", "int32"))), ParamNode("b", "query", true, Arr(Prim("integer", "int64")))}})
		add("two-required-array-query-params-noclient", d2, Flags{DoNotEdit: true})
	}
	{
		d := NewDoc("x")
		d.Comp("schemas", "Holder", M{"allOf": L{Obj([]string{"a"}, M{"a": Prim("string", ""), "nested": Obj(nil, M{"n": Prim("string", "")})}), Obj(nil, M{"b": Prim("string", "")})}})
		d.Op("/t", "post", M{"requestBody": M{"content": JSONContent(Ref("schemas", "Holder"))}})
		add("allof-inline-member-with-nested-inline-object", d, Flags{DoNotEdit: true})
	}
	{
		d := NewDoc("x")
		d.Comp("schemas", "Holder", Obj([]string{"v_1"}, M{"v_1": Prim("string", ""), "v_2": Prim("string", "")}))
		d.Op("/t", "post", M{"requestBody": M{"content": JSONContent(Ref("schemas", "Holder"))}})
		add("property-names-differing-in-digit-suffix", d, Flags{DoNotEdit: true})
	}
	{
		d := NewDoc("x")
		d.Comp("headers", "H", M{"schema": Arr(Prim("string", ""))})
		d.Op("/t", "get", M{"responses": M{"200": M{"description": "ok", "headers": M{"X-List": Ref("headers", "H")}}}})
		add("array-typed-component-header", d, Flags{DoNotEdit: true})
	}
	for _, pc := range []struct{ id, path string }{
		{"root-path", "/"}, {"trailing-slash-path", "/t/"}, {"variable-last", "/t/{pid}"}, {"variable-then-slash", "/t/{pid}/"}, {"dash-dot-underscore-path", "/t-a/b_c.d"},
	} {
		// no operationId + a shared component response: the operation name is
		// derived from the path at two code sites that must agree
		d := NewDoc("x")
		d.Comp("responses", "Err", Resp("err", Obj(nil, M{"a": Prim("string", "")})))
		op := M{"responses": M{"200": M{"description": "ok"}, "default": Ref("responses", "Err")}}
		if strings.Contains(pc.path, "{pid}") {
			op["parameters"] = L{ParamNode("pid", "path", true, Prim("string", ""))}
		}
		d.Op(pc.path, "get", op)
		out = append(out, Case{ID: "X=shared-response-no-operation-id-" + pc.id, Family: "extra", Spec: d.Root, Flags: Flags{Client: true}, Safe: true, Label: map[string]string{"X": "shared-response-" + pc.id}})
	}
	{
		// a shared response and an alias of it under two statuses of one
		// operation, and the same component twice: goag refuses both today
		// ("used several times"); whatever it does, success must compile
		for _, v := range []struct {
			id     string
			second string
		}{{"alias-and-target-response-in-one-operation", "NotFound"}, {"same-response-twice-in-one-operation", "BadRequest"}, {"alias-of-alias-and-target-response-in-one-operation", "Gone"}} {
			d := NewDoc("x")
			// (body-less: an alias of a response with a JSON body is a recorded finding of its own)
			d.Comp("responses", "BadRequest", M{"description": "bad", "headers": M{"X-Reason": M{"schema": Prim("string", "")}}})
			d.Comp("responses", "NotFound", Ref("responses", "BadRequest"))
			d.Comp("responses", "Gone", Ref("responses", "NotFound"))
			d.Op("/t", "get", M{"responses": M{"200": M{"description": "ok"}, "400": Ref("responses", "BadRequest"), "404": Ref("responses", v.second)}})
			d.Op("/u", "get", M{"responses": M{"200": M{"description": "ok"}, "404": Ref("responses", "NotFound")}})
			out = append(out, Case{ID: "X=" + v.id, Family: "extra", Spec: d.Root, Flags: Flags{Client: true}, Label: map[string]string{"X": v.id}})
		}
	}
	{
		// components no operation refers to are still rendered
		mk := func(id string, fill func(d *Doc)) {
			for _, cl := range []bool{false, true} {
				d := NewDoc("x")
				fill(d)
				d.Op("/health", "get", M{"responses": M{"204": M{"description": "no content"}}})
				cid := "X=unreferenced-" + id
				if cl {
					cid += "-client"
				}
				out = append(out, Case{ID: cid, Family: "extra", Spec: d.Root, Flags: Flags{Client: cl, DoNotEdit: true}, Safe: true, Label: map[string]string{"X": "unreferenced-" + id}})
			}
		}
		mk("json-response", func(d *Doc) {
			d.Comp("responses", "Error", Resp("err", Obj([]string{"code"}, M{"code": Prim("integer", "int32"), "msg": Prim("string", "")})))
		})
		mk("json-response-ref-schema", func(d *Doc) {
			d.Comp("schemas", "Err", Obj([]string{"code"}, M{"code": Prim("integer", "int32")}))
			d.Comp("responses", "Error", Resp("err", Ref("schemas", "Err")))
		})
		mk("raw-response", func(d *Doc) {
			d.Comp("responses", "Blob", M{"description": "blob", "content": M{"application/octet-stream": M{"schema": M{"type": "string", "format": "binary"}}}})
		})
		mk("header-response", func(d *Doc) {
			d.Comp("responses", "Moved", M{"description": "moved", "headers": M{"Location": M{"required": true, "schema": Prim("string", "")}}})
		})
		mk("schema-object", func(d *Doc) {
			d.Comp("schemas", "Lonely", Obj([]string{"a"}, M{"a": Prim("string", ""), "t": Prim("string", "date-time"), "m": M{"type": "object", "additionalProperties": Prim("integer", "int64")}}))
		})
		mk("schema-oneof", func(d *Doc) {
			d.Comp("schemas", "Cat", Obj([]string{"kind"}, M{"kind": Prim("string", "")}))
			d.Comp("schemas", "Dog", Obj([]string{"kind"}, M{"kind": Prim("string", "")}))
			d.Comp("schemas", "Pet", M{"oneOf": L{Ref("schemas", "Cat"), Ref("schemas", "Dog")}, "discriminator": M{"propertyName": "kind"}})
		})
		mk("parameters", func(d *Doc) {
			d.Comp("parameters", "Limit", ParamNode("limit", "query", false, Prim("integer", "int32")))
			d.Comp("parameters", "Trace", ParamNode("X-Trace", "header", true, Prim("string", "")))
			d.Comp("parameters", "When", ParamNode("when", "query", false, Prim("string", "date-time")))
		})
		mk("request-body", func(d *Doc) {
			d.Comp("requestBodies", "Thing", M{"required": true, "content": JSONContent(Obj(nil, M{"a": Prim("string", "")}))})
		})
		mk("header", func(d *Doc) {
			d.Comp("headers", "Rate", M{"schema": Prim("integer", "int64")})
		})
	}
	return out
}
