package specgen

// FamilyCases returns the purpose-built run-time families (router,
// parameter, schema, response, security, cors, kitchen sinks) as generator
// inputs for the stage-G properties that want a broad corpus (C01, C12,
// C15). Every case marked Safe must generate and compile: C01 re-checks on
// every run that the safe sub-dialect is still clean.
func FamilyCases(seed int64, thorough bool) []Case {
	n := 12
	if thorough {
		n = 120
	}
	var out []Case
	out = append(out, KitchenSinks()...)
	out = append(out, RouterCases(seed, n)...)
	out = append(out, ParamCases(seed, n/2)...)
	out = append(out, SchemaCases(seed, n, false)...)
	out = append(out, ResponseCases(seed, n)...)
	out = append(out, CorsCases(seed, n)...)
	for i, c := range SecurityCases(seed, thorough) {
		if i%4 == 0 {
			out = append(out, c)
		}
	}
	out = append(out, ExtraCases()...)
	return out
}

// ExtraCases: fixed cells for findings that the matrix dimensions do not
// span (found while building the run-time families).
func ExtraCases() []Case {
	var out []Case
	add := func(id string, d *Doc, fl Flags) {
		out = append(out, Case{ID: "X=" + id, Family: "extra", Spec: d.Root, Flags: fl, Label: map[string]string{"X": id}})
	}
	{
		d := NewDoc("x")
		d.Op("/t", "get", M{"parameters": L{ParamNode("a", "query", true, Arr(Prim("integer", "int32"))), ParamNode("b", "query", true, Arr(Prim("integer", "int64")))}})
		add("two-required-array-query-params-client", d, Flags{Client: true})
		d2 := NewDoc("x")
		d2.Op("/t", "get", M{"parameters": L{ParamNode("a", "query", true, Arr(Prim("integer", "int32"))), ParamNode("b", "query", true, Arr(Prim("integer", "int64")))}})
		add("two-required-array-query-params-noclient", d2, Flags{DoNotEdit: true})
	}
	{
		d := NewDoc("x")
		d.Comp("schemas", "Holder", M{"allOf": L{Obj([]string{"a"}, M{"a": Prim("string", ""), "nested": Obj(nil, M{"n": Prim("string", "")})}), Obj(nil, M{"b": Prim("string", "")})}})
		d.Op("/t", "post", M{"requestBody": M{"content": JSONContent(Ref("schemas", "Holder"))}})
		add("allof-inline-member-with-nested-inline-object", d, Flags{DoNotEdit: true})
	}
	{
		d := NewDoc("x")
		d.Comp("schemas", "Holder", Obj([]string{"v_1"}, M{"v_1": Prim("string", ""), "v_2": Prim("string", "")}))
		d.Op("/t", "post", M{"requestBody": M{"content": JSONContent(Ref("schemas", "Holder"))}})
		add("property-names-differing-in-digit-suffix", d, Flags{DoNotEdit: true})
	}
	{
		d := NewDoc("x")
		d.Comp("headers", "H", M{"schema": Arr(Prim("string", ""))})
		d.Op("/t", "get", M{"responses": M{"200": M{"description": "ok", "headers": M{"X-List": Ref("headers", "H")}}}})
		add("array-typed-component-header", d, Flags{DoNotEdit: true})
	}
	return out
}
