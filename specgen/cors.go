package specgen

import (
	"fmt"
	"math/rand"
)

// CorsCases: path items with method subsets, header parameters at path-item
// and operation level (shared and distinct names, different letter case is
// NOT used: one parameter in HTTP), bearer / apiKey security with public
// siblings, explicit OPTIONS.
func CorsCases(seed int64, n int) []Case {
	rng := rand.New(rand.NewSource(seed*71 + 29))
	var out []Case
	hdrNames := []string{"X-Request-Id", "Idempotency-Key", "If-Match", "x-trace", "X-Tenant", "accept-language", "Accept", "Content-Type"}
	for i := 0; i < n; i++ {
		d := NewDoc("cors")
		sec := []string{"", "bearer", "keyhdr", "both", "keyqry"}[rng.Intn(5)]
		switch sec {
		case "bearer":
			d.Comp("securitySchemes", "b", M{"type": "http", "scheme": "bearer"})
		case "keyhdr":
			d.Comp("securitySchemes", "k", M{"type": "apiKey", "in": "header", "name": "X-Api-Key"})
		case "both":
			d.Comp("securitySchemes", "b", M{"type": "http", "scheme": "bearer"})
			d.Comp("securitySchemes", "k", M{"type": "apiKey", "in": "header", "name": "X-Api-Key"})
		case "keyqry":
			d.Comp("securitySchemes", "q", M{"type": "apiKey", "in": "query", "name": "key"})
		}
		if sec != "" && rng.Intn(2) == 0 {
			d.Root["security"] = secAlt(sec, rng)
		}
		npaths := 1 + rng.Intn(4)
		for p := 0; p < npaths; p++ {
			path := "/c" + letters(p)
			var pathParams L
			switch rng.Intn(3) {
			case 0:
				path += "/{id}"
				pathParams = append(pathParams, ParamNode("id", "path", true, Prim("string", "")))
			case 1:
				path += "/sub"
			}
			if rng.Intn(2) == 0 {
				pathParams = append(pathParams, ParamNode(hdrNames[rng.Intn(len(hdrNames))], "header", false, Prim("string", "")))
			}
			methods := []string{"get", "post", "patch", "put", "delete"}
			rng.Shuffle(len(methods), func(a, b int) { methods[a], methods[b] = methods[b], methods[a] })
			nm := 1 + rng.Intn(4)
			for _, m := range methods[:nm] {
				var ps L
				seen := map[string]bool{}
				for _, x := range pathParams {
					seen[x.(M)["name"].(string)] = true
				}
				for k := 0; k < rng.Intn(4); k++ {
					h := hdrNames[rng.Intn(len(hdrNames))]
					if seen[h] {
						continue
					}
					seen[h] = true
					ps = append(ps, ParamNode(h, "header", rng.Intn(3) == 0, Prim("string", "")))
				}
				op := M{}
				if len(ps) > 0 {
					op["parameters"] = ps
				}
				if sec != "" {
					switch rng.Intn(4) {
					case 0:
						op["security"] = L{}
					case 1:
						op["security"] = secAlt(sec, rng)
					}
				}
				d.Op(path, m, op)
			}
			if rng.Intn(5) == 0 {
				d.Op(path, "options", M{"responses": M{"204": M{"description": "ok"}}})
			}
			if len(pathParams) > 0 {
				d.PathItem(path)["parameters"] = pathParams
			}
		}
		id := fmt.Sprintf("cors-rand-%04d", i)
		out = append(out, Case{ID: id, Family: "cors", Spec: d.Root, Flags: Flags{Cors: i%6 != 0, Client: false}, Safe: true, Label: map[string]string{"set": id}})
	}
	{
		// an apiKey header whose name is not in canonical form: what is advertised is
		// the header, not the spelling
		d := NewDoc("cors-apikey-spelling")
		d.Comp("securitySchemes", "k", M{"type": "apiKey", "in": "header", "name": "X-API-KEY"})
		d.Comp("securitySchemes", "t", M{"type": "apiKey", "in": "header", "name": "x-tenant-token"})
		d.Op("/a", "get", M{"security": L{M{"k": L{}}}, "parameters": L{ParamNode("If-None-Match", "header", false, Prim("string", ""))}})
		d.Op("/b", "get", M{"security": L{M{"t": L{}}}})
		d.Op("/b", "post", M{"security": L{M{"k": L{}}, M{"t": L{}}}})
		d.Op("/c", "delete", M{})
		id := "cors-fixed-apikey-header-spelling"
		out = append(out, Case{ID: id, Family: "cors", Spec: d.Root, Flags: Flags{Cors: true}, Safe: true, Label: map[string]string{"set": id}})
	}
	{
		// one header declared by two operations of a path in different letter case
		d := NewDoc("cors-header-case")
		d.Op("/orders/{id}", "get", M{"parameters": L{ParamNode("id", "path", true, Prim("string", "")), ParamNode("X-Request-ID", "header", false, Prim("string", ""))}})
		d.Op("/orders/{id}", "put", M{"parameters": L{ParamNode("id", "path", true, Prim("string", "")), ParamNode("x-request-id", "header", false, Prim("string", "")), ParamNode("If-Match", "header", true, Prim("string", ""))}})
		d.Op("/orders/{id}", "delete", M{"parameters": L{ParamNode("id", "path", true, Prim("string", "")), ParamNode("X-Request-Id", "header", false, Prim("string", ""))}})
		d.Op("/plain", "get", M{"parameters": L{ParamNode("x-request-id", "header", false, Prim("string", ""))}})
		id := "cors-fixed-header-letter-case"
		out = append(out, Case{ID: id, Family: "cors", Spec: d.Root, Flags: Flags{Cors: true}, Safe: true, Label: map[string]string{"set": id}})
	}
	return out
}

func secAlt(sec string, rng *rand.Rand) L {
	switch sec {
	case "bearer":
		return L{M{"b": L{}}}
	case "keyhdr":
		return L{M{"k": L{}}}
	case "keyqry":
		return L{M{"q": L{}}}
	}
	switch rng.Intn(3) {
	case 0:
		return L{M{"b": L{}}}
	case 1:
		return L{M{"k": L{}}}
	}
	return L{M{"b": L{}}, M{"k": L{}}}
}
