package specgen

// Compositions returns n seeded random multi-operation specs drawn from the
// safe sub-dialect (filled in by the run-time families).
func Compositions(seed int64, n int) []Case {
	return nil
}
