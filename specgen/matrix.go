package specgen

// Feature matrix (DESIGN §3.2): schema kind K x position P x required R x
// nullable N x ref/inline form F. Every cell is one small spec.

// Kinds of schema.
var Kinds = []string{
	"string", "date-time", "date", "integer", "int32", "int64", "number", "float", "double", "boolean",
	"arr-string", "arr-int64", "arr-number", "arr-datetime", "arr-refobj", "arr-inlineobj", "arr-refarr", "arr-inlinearr", "arr-any",
	"object", "object-empty", "object-addl-true", "object-addl-string", "object-addl-refobj", "any",
	"allOf-ref-inline", "allOf-inline-ref", "allOf-ref-ref", "allOf-inline-inline",
	"oneOf-plain", "oneOf-disc", "oneOf-disc-map", "oneOf-disc-partialmap", "oneOf-disc-namemap", "oneOf-plain-shared", "object-oneway",
}

var Positions = []string{"query", "header", "path", "reqbody", "respbody", "resphdr", "prop", "item", "addl", "comp"}

var Forms = []string{"inline", "ref", "cref", "alias"}

func IsPrimitiveKind(k string) bool {
	switch k {
	case "string", "date-time", "date", "integer", "int32", "int64", "number", "float", "double", "boolean":
		return true
	}
	return false
}

// KindSchema returns the inline schema for a kind plus auxiliary component
// schemas it refers to.
func KindSchema(kind string) (M, map[string]M) {
	aux := map[string]M{}
	objA := func() M {
		return Obj([]string{"a"}, M{"a": Prim("string", ""), "a2": Prim("integer", "int64")})
	}
	objB := func() M {
		return Obj([]string{"b"}, M{"b": Prim("string", ""), "b2": Prim("boolean", "")})
	}
	switch kind {
	case "string":
		return Prim("string", ""), aux
	case "date-time":
		return Prim("string", "date-time"), aux
	case "date":
		return Prim("string", "date"), aux
	case "integer":
		return Prim("integer", ""), aux
	case "int32":
		return Prim("integer", "int32"), aux
	case "int64":
		return Prim("integer", "int64"), aux
	case "number":
		return Prim("number", ""), aux
	case "float":
		return Prim("number", "float"), aux
	case "double":
		return Prim("number", "double"), aux
	case "boolean":
		return Prim("boolean", ""), aux
	case "arr-string":
		return Arr(Prim("string", "")), aux
	case "arr-int64":
		return Arr(Prim("integer", "int64")), aux
	case "arr-number":
		return Arr(Prim("number", "")), aux
	case "arr-datetime":
		return Arr(Prim("string", "date-time")), aux
	case "arr-refobj":
		aux["AuxA"] = objA()
		return Arr(Ref("schemas", "AuxA")), aux
	case "arr-inlineobj":
		return Arr(objA()), aux
	case "arr-refarr":
		aux["AuxArr"] = Arr(Prim("string", ""))
		return Arr(Ref("schemas", "AuxArr")), aux
	case "arr-inlinearr":
		return Arr(Arr(Prim("string", ""))), aux
	case "arr-any":
		return Arr(M{}), aux
	case "object":
		return Obj([]string{"r"}, M{"r": Prim("string", ""), "o": Prim("integer", "int32")}), aux
	case "object-empty":
		return M{"type": "object"}, aux
	case "object-addl-true":
		o := Obj([]string{"r"}, M{"r": Prim("string", "")})
		o["additionalProperties"] = true
		return o, aux
	case "object-addl-string":
		o := Obj(nil, M{"o": Prim("string", "")})
		o["additionalProperties"] = Prim("string", "")
		return o, aux
	case "object-addl-refobj":
		aux["AuxA"] = objA()
		o := M{"type": "object", "additionalProperties": Ref("schemas", "AuxA")}
		return o, aux
	case "any":
		return M{}, aux
	case "allOf-ref-inline":
		aux["AuxA"] = objA()
		return M{"allOf": L{Ref("schemas", "AuxA"), objB()}}, aux
	case "allOf-inline-ref":
		aux["AuxA"] = objA()
		return M{"allOf": L{objB(), Ref("schemas", "AuxA")}}, aux
	case "allOf-ref-ref":
		aux["AuxA"] = objA()
		aux["AuxB"] = objB()
		return M{"allOf": L{Ref("schemas", "AuxA"), Ref("schemas", "AuxB")}}, aux
	case "allOf-inline-inline":
		return M{"allOf": L{objA(), objB()}}, aux
	case "oneOf-plain":
		aux["AuxA"] = objA()
		aux["AuxB"] = objB()
		return M{"oneOf": L{Ref("schemas", "AuxA"), Ref("schemas", "AuxB")}}, aux
	case "oneOf-disc-partialmap":
		a := Obj([]string{"kind", "a"}, M{"kind": Prim("string", ""), "a": Prim("string", "")})
		b := Obj([]string{"kind", "b"}, M{"kind": Prim("string", ""), "b": Prim("integer", "int64")})
		c := Obj([]string{"kind", "c"}, M{"kind": Prim("string", ""), "c": Prim("boolean", "")})
		aux["AuxA"], aux["AuxB"], aux["AuxC"] = a, b, c
		disc := M{"propertyName": "kind", "mapping": M{"first": "#/components/schemas/AuxA", "second": "#/components/schemas/AuxB"}}
		return M{"oneOf": L{Ref("schemas", "AuxA"), Ref("schemas", "AuxB"), Ref("schemas", "AuxC")}, "discriminator": disc}, aux
	case "object-oneway":
		// required properties marked readOnly / writeOnly: still required of every document
		return Obj([]string{"id", "secret", "r"}, M{"id": M{"type": "integer", "format": "int64", "readOnly": true}, "secret": M{"type": "string", "writeOnly": true},
			"r": Prim("string", ""), "o": M{"type": "string", "readOnly": true}}), aux
	case "oneOf-plain-shared":
		// no discriminator; the alternatives share property names, each has one
		// required property of its own
		// (the own property sorts after the shared ones: decoders go through the
		// properties in name order)
		a := Obj([]string{"za"}, M{"za": Prim("string", ""), "name": Prim("string", ""), "age": Prim("integer", "int32")})
		b := Obj([]string{"zb"}, M{"zb": Prim("boolean", ""), "name": Prim("string", ""), "age": Prim("integer", "int32")})
		c := Obj([]string{"zc", "name"}, M{"zc": Prim("integer", "int64"), "name": Prim("string", "")})
		aux["AuxA"], aux["AuxB"], aux["AuxC"] = a, b, c
		return M{"oneOf": L{Ref("schemas", "AuxA"), Ref("schemas", "AuxB"), Ref("schemas", "AuxC")}}, aux
	case "oneOf-disc-namemap":
		// explicit mapping whose keys are the schema names themselves, plus one more key
		a := Obj([]string{"kind", "a"}, M{"kind": Prim("string", ""), "a": Prim("string", "")})
		b := Obj([]string{"kind", "b"}, M{"kind": Prim("string", ""), "b": Prim("integer", "int64")})
		aux["AuxA"], aux["AuxB"] = a, b
		disc := M{"propertyName": "kind", "mapping": M{"AuxA": "#/components/schemas/AuxA", "AuxB": "#/components/schemas/AuxB", "bee": "#/components/schemas/AuxB"}}
		return M{"oneOf": L{Ref("schemas", "AuxA"), Ref("schemas", "AuxB")}, "discriminator": disc}, aux
	case "oneOf-disc", "oneOf-disc-map":
		a := Obj([]string{"kind", "a"}, M{"kind": Prim("string", ""), "a": Prim("string", "")})
		b := Obj([]string{"kind", "b"}, M{"kind": Prim("string", ""), "b": Prim("integer", "int64")})
		aux["AuxA"] = a
		aux["AuxB"] = b
		disc := M{"propertyName": "kind"}
		if kind == "oneOf-disc-map" {
			disc["mapping"] = M{"first": "#/components/schemas/AuxA", "second": "#/components/schemas/AuxB"}
		}
		return M{"oneOf": L{Ref("schemas", "AuxA"), Ref("schemas", "AuxB")}, "discriminator": disc}, aux
	}
	panic("unknown kind " + kind)
}

// Cell describes one matrix cell.
type Cell struct {
	Kind, Pos, Form string
	Req, Null       bool
}

func (c Cell) ID() string {
	return "K=" + c.Kind + ",P=" + c.Pos + ",R=" + bstr(c.Req) + ",N=" + bstr(c.Null) + ",F=" + c.Form
}

// formsFor lists the ref/inline forms applicable at a position.
func formsFor(pos string) []string {
	switch pos {
	case "query", "header", "path":
		return []string{"inline", "ref", "cref"}
	case "reqbody":
		return []string{"inline", "ref", "cref"}
	case "respbody":
		return []string{"inline", "ref", "cref", "alias"}
	case "resphdr":
		return []string{"inline", "ref", "cref"}
	case "comp":
		return []string{"inline", "ref"} // ref = component that is itself a $ref alias
	}
	return []string{"inline", "ref"}
}

func reqsFor(pos string) []bool {
	switch pos {
	case "query", "header", "reqbody", "resphdr", "prop":
		return []bool{false, true}
	case "path":
		return []bool{true}
	}
	return []bool{false}
}

// AllCells enumerates the matrix.
func AllCells() []Cell {
	var out []Cell
	for _, k := range Kinds {
		for _, p := range Positions {
			for _, f := range formsFor(p) {
				for _, r := range reqsFor(p) {
					for _, n := range []bool{false, true} {
						out = append(out, Cell{Kind: k, Pos: p, Form: f, Req: r, Null: n})
					}
				}
			}
		}
	}
	return out
}

// BuildCell builds the spec of a cell.
func BuildCell(c Cell) *Doc {
	d := NewDoc("cell")
	schema, aux := KindSchema(c.Kind)
	for k, v := range aux {
		d.Comp("schemas", k, v)
	}
	if c.Null {
		schema["nullable"] = true
	}
	// the schema as seen from the position
	var s any = schema
	if c.Form == "ref" {
		d.Comp("schemas", "T", schema)
		s = Ref("schemas", "T")
	}
	holderBody := func(holder M) {
		d.Comp("schemas", "Holder", holder)
		d.Op("/t", "post", M{
			"requestBody": M{"required": true, "content": JSONContent(Ref("schemas", "Holder"))},
			"responses":   M{"200": Resp("ok", Ref("schemas", "Holder"))},
		})
	}
	switch c.Pos {
	case "query", "header", "path":
		name := "p"
		path := "/t"
		if c.Pos == "path" {
			path = "/t/{p}"
		}
		pn := ParamNode(name, c.Pos, c.Req, s)
		var pv any = pn
		if c.Form == "cref" {
			d.Comp("parameters", "P", pn)
			pv = Ref("parameters", "P")
		}
		d.Op(path, "get", M{"parameters": L{pv}})
	case "reqbody":
		rb := M{"content": JSONContent(s)}
		if c.Req {
			rb["required"] = true
		}
		var rv any = rb
		if c.Form == "cref" {
			d.Comp("requestBodies", "B", rb)
			rv = Ref("requestBodies", "B")
		}
		d.Op("/t", "post", M{"requestBody": rv})
	case "respbody":
		r := Resp("ok", s)
		var rv any = r
		switch c.Form {
		case "cref":
			d.Comp("responses", "R", r)
			rv = Ref("responses", "R")
		case "alias":
			d.Comp("responses", "R", r)
			d.Comp("responses", "R1", Ref("responses", "R"))
			rv = Ref("responses", "R1")
		}
		d.Op("/t", "get", M{"responses": M{"200": rv, "default": M{"description": "err"}}})
	case "resphdr":
		h := M{"schema": s}
		if c.Req {
			h["required"] = true
		}
		var hv any = h
		if c.Form == "cref" {
			d.Comp("headers", "H", h)
			hv = Ref("headers", "H")
		}
		d.Op("/t", "get", M{"responses": M{"200": M{"description": "ok", "headers": M{"X-H": hv}}}})
	case "prop":
		var req []string
		if c.Req {
			req = []string{"f"}
		}
		holderBody(Obj(req, M{"f": s, "z": Prim("string", "")}))
	case "item":
		holderBody(Arr(s))
	case "addl":
		holderBody(M{"type": "object", "additionalProperties": s})
	case "comp":
		if c.Form == "ref" {
			// T is the real schema, Holder is an alias of it
			holderBody(Ref("schemas", "T"))
		} else {
			holderBody(schema)
		}
	}
	return d
}

// MatrixCases converts cells to cases (flags assigned by the caller).
func MatrixCases() []Case {
	cells := AllCells()
	out := make([]Case, 0, len(cells))
	for _, c := range cells {
		d := BuildCell(c)
		out = append(out, Case{
			ID: c.ID(), Family: "matrix", Spec: d.Root,
			Label: map[string]string{"K": c.Kind, "P": c.Pos, "R": bstr(c.Req), "N": bstr(c.Null), "F": c.Form},
		})
	}
	return out
}
