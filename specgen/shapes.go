package specgen

// Name-shape and free-text-shape cells (DESIGN §3.2).

type nameShape struct {
	ID    string
	Names []string // one or two names (two = a pair equal after normalisation)
	Token bool     // legal as an HTTP header token
	Comp  bool     // legal as a component name ^[a-zA-Z0-9._-]+$
	Path  bool     // usable as a path segment / variable
}

var NameShapes = []nameShape{
	{"lower", []string{"pet"}, true, true, true},
	{"camel", []string{"petName"}, true, true, true},
	{"pascal", []string{"PetName"}, true, true, true},
	{"snake", []string{"pet_name"}, true, true, true},
	{"kebab", []string{"pet-name"}, true, true, true},
	{"dotted", []string{"pet.name"}, true, true, true},
	{"digits", []string{"pet2x"}, true, true, true},
	{"idsuffix", []string{"petId"}, true, true, true},
	{"wordendingid", []string{"android"}, true, true, true},
	{"idssuffix", []string{"pet_ids"}, true, true, true},
	{"uuidsuffix", []string{"petUuid"}, true, true, true},
	{"acronym", []string{"HTTPServerURL"}, true, true, true},
	{"upper", []string{"PET"}, true, true, true},
	{"single", []string{"p"}, true, true, true},
	{"keyword", []string{"type"}, true, true, true},
	{"keyword2", []string{"func"}, true, true, true},
	{"predeclared", []string{"string"}, true, true, true},
	{"predeclared2", []string{"error"}, true, true, true},
	{"leaddigit", []string{"3d"}, true, true, true},
	{"alldigits", []string{"123"}, true, true, true},
	{"leadunderscore", []string{"_pet"}, true, true, true},
	{"genident", []string{"Body"}, true, true, true},
	{"genident2", []string{"Query"}, true, true, true},
	{"genident3", []string{"API"}, true, true, true},
	{"nonascii", []string{"péт"}, false, false, true},
	{"normpair", []string{"pet_name", "petName"}, true, true, true},
}

var NameSites = []string{"query", "header", "pathvar", "property", "schema", "resphdr", "opid", "segment", "compresp", "compparam"}

var TextShapes = []struct{ ID, Text string }{
	{"plain", "A plain text."},
	{"dquote", `say "hello"`},
	{"backtick", "use `code` here"},
	{"backslash", `a\b\n`},
	{"multiline", "first line\nsecond line\nthird"},
	{"commentend", "ends */ here /* and"},
	{"trailingnl", "text with newline\n"},
	{"nonascii", "текст — ünïcode ✓"},
	{"leadingslashes", "// looks like a comment\n// and another"},
}

var TextSites = []string{"title", "summary", "opdesc", "paramdesc", "schemadesc", "propdesc", "respdesc", "infodesc"}

func ShapeCases() []Case {
	var out []Case
	for _, ns := range NameShapes {
		for _, site := range NameSites {
			if (site == "header" || site == "resphdr") && !ns.Token {
				continue
			}
			if (site == "schema" || site == "compresp" || site == "compparam") && !ns.Comp {
				continue
			}
			if len(ns.Names) == 2 && (site == "opid") {
				// two operations with ids equal after normalisation
			}
			d := buildNameCell(ns.Names, site)
			if d == nil {
				continue
			}
			out = append(out, Case{ID: "S=" + ns.ID + ",site=" + site, Family: "name", Spec: d.Root, Flags: Flags{Client: true},
				Label: map[string]string{"S": ns.ID, "site": site}})
		}
	}
	for _, ts := range TextShapes {
		for _, site := range TextSites {
			d := buildTextCell(ts.Text, site)
			out = append(out, Case{ID: "T=" + ts.ID + ",site=" + site, Family: "text", Spec: d.Root, Flags: Flags{Client: true, DoNotEdit: true},
				Label: map[string]string{"T": ts.ID, "site": site}})
		}
	}
	return out
}

func buildNameCell(names []string, site string) *Doc {
	d := NewDoc("names")
	body := Obj([]string{"id"}, M{"id": Prim("string", "")})
	switch site {
	case "query", "header":
		var ps L
		for _, n := range names {
			ps = append(ps, ParamNode(n, site, false, Prim("string", "")))
		}
		ps = append(ps, ParamNode("other", site, true, Prim("integer", "int64")))
		d.Op("/t", "get", M{"parameters": ps})
	case "pathvar":
		path := "/t"
		var ps L
		for _, n := range names {
			path += "/{" + n + "}"
			ps = append(ps, ParamNode(n, "path", true, Prim("string", "")))
		}
		d.Op(path, "get", M{"parameters": ps})
	case "property":
		props := M{"zz": Prim("string", "")}
		var req []string
		for i, n := range names {
			props[n] = Prim("string", "")
			if i == 0 {
				req = append(req, n)
			}
		}
		d.Comp("schemas", "Holder", Obj(req, props))
		d.Op("/t", "post", M{
			"requestBody": M{"required": true, "content": JSONContent(Ref("schemas", "Holder"))},
			"responses":   M{"200": Resp("ok", Ref("schemas", "Holder"))},
		})
	case "schema":
		for _, n := range names {
			d.Comp("schemas", n, CloneM(body))
		}
		d.Comp("schemas", "User", Obj(nil, M{"x": Ref("schemas", names[0])}))
		resps := M{"200": Resp("ok", Ref("schemas", names[0])), "201": Resp("ok", Ref("schemas", "User"))}
		if len(names) > 1 {
			resps["202"] = Resp("ok", Ref("schemas", names[1]))
		}
		d.Op("/t", "post", M{
			"requestBody": M{"required": true, "content": JSONContent(Ref("schemas", names[0]))},
			"responses":   resps,
		})
	case "resphdr":
		hs := M{}
		for _, n := range names {
			hs[n] = M{"schema": Prim("string", "")}
		}
		d.Op("/t", "get", M{"responses": M{"200": M{"description": "ok", "headers": hs}}})
	case "opid":
		d.Op("/t", "get", M{"operationId": names[0]})
		if len(names) > 1 {
			d.Op("/t", "post", M{"operationId": names[1]})
		}
	case "segment":
		d.Comp("responses", "Gone", Resp("gone", CloneM(body)))
		d.Op("/"+names[0]+"/apps", "get", M{"responses": M{"200": M{"description": "ok"}, "410": Ref("responses", "Gone")}})
		d.Op("/"+names[0], "get", nil)
		d.Op("/x/"+names[0]+"/{v}", "get", M{"parameters": L{ParamNode("v", "path", true, Prim("string", ""))}})
		if len(names) > 1 {
			d.Op("/"+names[1], "get", nil)
		}
	case "compresp":
		resps := M{}
		for i, n := range names {
			d.Comp("responses", n, Resp("ok", CloneM(body)))
			resps[[]string{"200", "201"}[i]] = Ref("responses", n)
		}
		d.Op("/t", "get", M{"responses": resps})
	case "compparam":
		var ps L
		for i, n := range names {
			d.Comp("parameters", n, ParamNode([]string{"q", "r"}[i], "query", false, Prim("string", "")))
			ps = append(ps, Ref("parameters", n))
		}
		d.Op("/t", "get", M{"parameters": ps})
	default:
		return nil
	}
	return d
}

func buildTextCell(text, site string) *Doc {
	d := NewDoc("texts")
	holder := Obj([]string{"id"}, M{"id": Prim("string", ""), "n": Prim("integer", "int64")})
	param := ParamNode("q", "query", false, Prim("string", ""))
	op := M{"parameters": L{param}, "responses": M{"200": Resp("ok", Ref("schemas", "Holder"))},
		"requestBody": M{"content": JSONContent(Ref("schemas", "Holder"))}}
	switch site {
	case "title":
		d.Root["info"].(M)["title"] = text
	case "infodesc":
		d.Root["info"].(M)["description"] = text
	case "summary":
		op["summary"] = text
	case "opdesc":
		op["description"] = text
	case "paramdesc":
		param["description"] = text
	case "schemadesc":
		holder["description"] = text
	case "propdesc":
		holder["properties"].(M)["id"].(M)["description"] = text
		holder["properties"].(M)["n"].(M)["description"] = text
	case "respdesc":
		op["responses"].(M)["200"].(M)["description"] = text
		d.Comp("responses", "Shared", M{"description": text, "content": JSONContent(Ref("schemas", "Holder"))})
		op["responses"].(M)["404"] = Ref("responses", "Shared")
	}
	d.Comp("schemas", "Holder", holder)
	d.Op("/t", "post", op)
	return d
}
