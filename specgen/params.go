package specgen

import (
	"fmt"
	"math/rand"
)

// Parameter family (C04, C09, C17): type kind x {query scalar, query array,
// header scalar, header array} x required x {inline, schema $ref, component
// parameter $ref} x {path-item, operation} level, plus multi-parameter
// operations and path-item parameters overridden by the operation.

var paramKinds = []M{
	{"type": "string"}, {"type": "string", "format": "date-time"}, {"type": "string", "format": "date"},
	{"type": "integer"}, {"type": "integer", "format": "int32"}, {"type": "integer", "format": "int64"},
	{"type": "number"}, {"type": "number", "format": "float"}, {"type": "number", "format": "double"}, {"type": "boolean"},
}

func kindName(s M) string {
	n, _ := s["type"].(string)
	if f, ok := s["format"].(string); ok {
		n += "-" + f
	}
	return n
}

// ParamCases returns the fixed matrix of the parameter family plus n seeded
// multi-parameter specs.
func ParamCases(seed int64, n int) []Case {
	var out []Case
	idx := 0
	// fixed: 8 operations per spec to keep the number of packages small
	var d *Doc
	var id string
	client := true
	flush := func() {
		if d != nil {
			out = append(out, Case{ID: id, Family: "params", Spec: d.Root, Flags: Flags{Client: client, DoNotEdit: !client}, Safe: true, Label: map[string]string{"set": id}})
		}
		d = nil
	}
	nop := 0
	for _, hdrArr := range []bool{false, true} {
		for ki, k := range paramKinds {
			for _, loc := range []string{"query", "header"} {
				for _, arr := range []bool{false, true} {
					if (arr && loc == "header") != hdrArr {
						continue
					}
					if hdrArr && client {
						// header arrays: the client generator refuses them cleanly, so these specs are generated without client
						flush()
						client = false
					}
					for _, req := range []bool{false, true} {
						for _, form := range []string{"inline", "ref", "cref"} {
							for _, level := range []string{"operation", "path-item"} {
								if arr && loc == "header" && (form != "inline" || level == "path-item") {
									continue
								}
								if d == nil || nop >= 8 {
									flush()
									idx++
									id = fmt.Sprintf("params-fixed-%03d", idx)
									d = NewDoc("params")
									nop = 0
								}
								nop++
								var schema any = CloneM(k)
								if form == "ref" {
									name := fmt.Sprintf("S%d", ki)
									d.Comp("schemas", name, CloneM(k))
									schema = Ref("schemas", name)
								}
								if arr {
									schema = Arr(schema)
								}
								pname := "p" + letters(nop)
								if loc == "header" {
									pname = "X-P-" + letters(nop)
								}
								pn := ParamNode(pname, loc, req, schema)
								var pv any = pn
								if form == "cref" {
									cn := fmt.Sprintf("P%d", nop)
									d.Comp("parameters", cn, pn)
									pv = Ref("parameters", cn)
								}
								path := fmt.Sprintf("/o%s", letters(nop))
								// a second, always optional string parameter keeps the query non-empty in some requests
								other := ParamNode("other", "query", false, Prim("string", ""))
								if level == "path-item" {
									d.Op(path, "get", M{"parameters": L{other}})
									d.PathItem(path)["parameters"] = L{pv}
								} else {
									d.Op(path, "get", M{"parameters": L{pv, other}})
								}
							}
						}
					}
				}
			}
		}
	}
	flush()
	// overrides: path-item declaration replaced by a different operation-level declaration
	od := NewDoc("overrides")
	od.Comp("parameters", "LimitStr", ParamNode("limit", "query", false, Prim("string", "")))
	od.Op("/items", "get", M{"parameters": L{ParamNode("limit", "query", false, Prim("string", "")), ParamNode("X-Trace", "header", false, Prim("string", ""))}})
	od.Op("/items", "post", nil)
	od.Op("/items", "put", M{"parameters": L{Ref("parameters", "LimitStr")}})
	od.PathItem("/items")["parameters"] = L{ParamNode("limit", "query", true, Prim("integer", "int32")), ParamNode("X-Trace", "header", true, Prim("integer", "int64"))}
	od.Op("/things", "get", M{"parameters": L{ParamNode("tags", "query", false, Arr(Prim("integer", "")))}})
	od.PathItem("/things")["parameters"] = L{ParamNode("tags", "query", true, Arr(Prim("string", ""))), ParamNode("only", "query", true, Prim("boolean", ""))}
	out = append(out, Case{ID: "params-override", Family: "params", Spec: od.Root, Flags: Flags{Client: true}, Safe: true, Label: map[string]string{"set": "override"}})
	// raw (non-JSON) request bodies next to parameters
	rb := NewDoc("rawbody")
	bin := M{"type": "string", "format": "binary"}
	rb.Op("/upload/{id}", "post", M{
		"parameters":  L{ParamNode("id", "path", true, Prim("string", "")), ParamNode("note", "query", false, Prim("string", "")), ParamNode("X-Sum", "header", true, Prim("integer", "int64"))},
		"requestBody": M{"required": true, "content": M{"application/octet-stream": M{"schema": bin}}},
		"responses":   M{"204": M{"description": "ok"}, "default": M{"description": "e"}},
	})
	rb.Op("/text", "put", M{"requestBody": M{"content": M{"text/plain": M{"schema": Prim("string", "")}}}})
	// a structured-syntax media type that is not application/json: a raw body on both sides
	rb.Op("/patch/{id}", "patch", M{
		"parameters":  L{ParamNode("id", "path", true, Prim("integer", "int64"))},
		"requestBody": M{"required": true, "content": M{"application/merge-patch+json": M{"schema": M{"type": "object"}}}},
	})
	rb.Comp("requestBodies", "Blob", M{"content": M{"application/octet-stream": M{"schema": bin}}})
	rb.Op("/blob", "patch", M{"requestBody": Ref("requestBodies", "Blob"), "parameters": L{ParamNode("tags", "query", false, Arr(Prim("string", "")))}})
	out = append(out, Case{ID: "params-raw-body", Family: "params", Spec: rb.Root, Flags: Flags{Client: true}, Safe: true, Label: map[string]string{"set": "raw-body"}})
	// parameter names as they are spelled in the wild: capitals inside a header
	// word, all lower case, brackets / dollar / blank in query names
	nm := NewDoc("names")
	nm.Op("/h", "get", M{"parameters": L{
		ParamNode("X-Request-ID", "header", true, Prim("string", "")), ParamNode("X-API-Key", "header", false, Prim("integer", "int64")),
		ParamNode("x-lower-case", "header", false, Prim("string", "")), ParamNode("X-B3-TraceFlags", "header", false, Prim("boolean", "")),
	}})
	nm.Op("/q", "get", M{"parameters": L{
		ParamNode("page[size]", "query", true, Prim("integer", "int32")), ParamNode("$filter", "query", false, Prim("string", "")),
		ParamNode("sort by", "query", false, Prim("string", "")), ParamNode("a.b-c_d~e", "query", false, Prim("string", "")), ParamNode("Ünï", "query", false, Prim("string", "")),
	}})
	out = append(out, Case{ID: "params-names-in-the-wild", Family: "params", Spec: nm.Root, Flags: Flags{Client: true}, Safe: true, Label: map[string]string{"set": "names"}})
	// serialisation keywords on array parameters (goag ignores them: the inline
	// and the referenced form must ignore them alike)
	ex := NewDoc("explode")
	ex.Comp("schemas", "Ids", Arr(Prim("integer", "int64")))
	ex.Comp("schemas", "Words", Arr(Prim("string", "")))
	pe := func(name string, schema any, explode bool, style string) M {
		p := ParamNode(name, "query", false, schema)
		p["explode"] = explode
		if style != "" {
			p["style"] = style
		}
		return p
	}
	ex.Op("/inline", "get", M{"parameters": L{pe("ids", Arr(Prim("integer", "int64")), false, "form"), pe("tags", Arr(Prim("string", "")), false, ""), pe("on", Arr(Prim("string", "")), true, "form")}})
	ex.Op("/ref", "get", M{"parameters": L{pe("ids", Ref("schemas", "Ids"), false, "form"), pe("tags", Ref("schemas", "Words"), false, ""), pe("on", Ref("schemas", "Words"), true, "form")}})
	out = append(out, Case{ID: "params-explode-style", Family: "params", Spec: ex.Root, Flags: Flags{Client: true}, Safe: true, Label: map[string]string{"set": "explode"}})
	// query parameters on methods that usually carry bodies (and here carry none)
	pm := NewDoc("postquery")
	for _, m := range []string{"post", "put", "patch", "delete"} {
		pm.Op("/w", m, M{"parameters": L{ParamNode("token", "query", true, Prim("string", "")), ParamNode("n", "query", false, Prim("integer", "int32")), ParamNode("tags", "query", false, Arr(Prim("string", "")))}})
	}
	out = append(out, Case{ID: "params-query-on-post", Family: "params", Spec: pm.Root, Flags: Flags{Client: true}, Safe: true, Label: map[string]string{"set": "postquery"}})
	// arrays whose items are component schemas
	ai := NewDoc("arrayitems")
	ai.Comp("schemas", "Tag", Prim("string", ""))
	ai.Comp("schemas", "Num", Prim("integer", "int64"))
	ai.Op("/items", "get", M{"parameters": L{ParamNode("tag", "query", false, Arr(Ref("schemas", "Tag")))}})
	ai.Op("/nums", "get", M{"parameters": L{ParamNode("n", "query", true, Arr(Ref("schemas", "Num")))}})
	ai.Op("/plain", "get", M{"parameters": L{ParamNode("tag", "query", true, Arr(Prim("string", "")))}})
	out = append(out, Case{ID: "params-array-items-ref", Family: "params", Spec: ai.Root, Flags: Flags{Client: true}, Safe: true, Label: map[string]string{"set": "array-items-ref"}})
	// seeded multi-parameter operations
	rng := rand.New(rand.NewSource(seed*53 + 11))
	for i := 0; i < n; i++ {
		d := NewDoc("multi")
		nops := 2 + rng.Intn(4)
		for o := 0; o < nops; o++ {
			np := 1 + rng.Intn(6)
			var ps L
			arrays := 0
			for j := 0; j < np; j++ {
				k := CloneM(paramKinds[rng.Intn(len(paramKinds))])
				loc := []string{"query", "query", "header"}[rng.Intn(3)]
				var schema any = k
				// at most one array query parameter per operation: two of them make the
				// generated client redeclare a variable (recorded C01 finding)
				if rng.Intn(4) == 0 && loc == "query" && arrays == 0 {
					schema = Arr(k)
					arrays++
				}
				name := "q" + letters(j)
				if loc == "header" {
					name = "X-H-" + letters(j)
				}
				ps = append(ps, ParamNode(name, loc, rng.Intn(3) == 0, schema))
			}
			path := "/m" + letters(o)
			op := M{"parameters": ps}
			if rng.Intn(3) == 0 {
				path += "/{key}"
				op["parameters"] = append(ps, ParamNode("key", "path", true, Prim("string", "")))
			}
			d.Op(path, []string{"get", "post", "delete"}[rng.Intn(3)], op)
		}
		id := fmt.Sprintf("params-rand-%04d", i)
		out = append(out, Case{ID: id, Family: "params", Spec: d.Root, Flags: Flags{Client: true}, Safe: true, Label: map[string]string{"set": id}})
	}
	return out
}
