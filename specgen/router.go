package specgen

import (
	"fmt"
	"math/rand"
	"strings"
)

// Router family (C03, C05, C16, C17): sets of non-equivalent path templates
// over the segment alphabet {a, b, {var}, empty-last}, depth <= 4, method
// sets, typed path variables, base-path forms.

type BaseForm struct {
	ID      string
	Servers string // servers[0].url ("" none)
	Vars    M
	Flag    string   // --basepath
	More    []string // further servers after the first (never used for the base path)
}

var BaseForms = []BaseForm{
	{ID: "none"},
	{ID: "servers-v1", Servers: "/v1"},
	{ID: "servers-url", Servers: "https://example.com/api/v2"},
	{ID: "servers-vars", Servers: "https://{host}/{base}/x", Vars: M{"host": M{"default": "example.com"}, "base": M{"default": "root"}}},
	{ID: "flag", Flag: "/f1"},
	{ID: "flag-two", Flag: "/f1/f2"},
	{ID: "flag-over-servers", Servers: "/ignored", Flag: "/f3"},
	{ID: "flag-root-over-servers", Servers: "https://example.com/ignored/v9", Flag: "/"},
	{ID: "servers-trailing-slash", Servers: "/v1/"},
	{ID: "servers-root-slash", Servers: "/"},
	{ID: "flag-trailing-slash", Flag: "/f1/"},
	{ID: "servers-host-only", Servers: "https://example.com"},
	{ID: "servers-first-host-only-second-path", Servers: "https://example.com", More: []string{"https://staging.example.com/v1", "/v2"}},
	{ID: "servers-two-paths", Servers: "/v1", More: []string{"/v2/deep"}},
	{ID: "servers-variable-twice", Servers: "https://{tenant}.example.com/{tenant}/{version}/{tenant}", Vars: M{"tenant": M{"default": "acme"}, "version": M{"default": "v1"}}},
}

var pathVarTypes = []M{
	{"type": "string"}, {"type": "string"}, {"type": "string"},
	{"type": "integer"}, {"type": "integer", "format": "int32"}, {"type": "integer", "format": "int64"},
	{"type": "number"}, {"type": "number", "format": "float"}, {"type": "boolean"}, {"type": "string", "format": "date-time"},
}

type tmpl struct {
	segs []string // "a", "b", "{}", ""
}

func (t tmpl) shape() string { return strings.Join(t.segs, "/") }

func randTemplate(rng *rand.Rand) tmpl {
	d := 1 + rng.Intn(4)
	var segs []string
	for i := 0; i < d; i++ {
		switch rng.Intn(5) {
		case 0, 1:
			segs = append(segs, "a")
		case 2:
			segs = append(segs, "b")
		default:
			segs = append(segs, "{}")
		}
	}
	if rng.Intn(5) == 0 {
		if rng.Intn(3) == 0 {
			segs = []string{""}
		} else if len(segs) < 4 {
			segs = append(segs, "")
		} else {
			segs[len(segs)-1] = ""
		}
	}
	return tmpl{segs}
}

// BuildRouterDoc builds a spec from template shapes.
func BuildRouterDoc(rng *rand.Rand, ts []tmpl, bf BaseForm, typed bool, perTemplateNames bool, security string, explicitOptions bool) *Doc {
	d := NewDoc("router")
	if bf.Servers != "" {
		d.Server(bf.Servers, bf.Vars)
		for _, u := range bf.More {
			d.Root["servers"] = append(d.Root["servers"].(L), M{"url": u})
		}
	}
	switch security {
	case "bearer":
		d.Comp("securitySchemes", "bearerAuth", M{"type": "http", "scheme": "bearer"})
		d.Root["security"] = L{M{"bearerAuth": L{}}}
	case "apikey":
		d.Comp("securitySchemes", "keyAuth", M{"type": "apiKey", "in": "header", "name": "X-Api-Key"})
		d.Root["security"] = L{M{"keyAuth": L{}}}
	}
	methodsPool := []string{"get", "post", "put", "delete"}
	for ti, t := range ts {
		path := ""
		var params L
		for si, s := range t.segs {
			if s == "{}" {
				name := fmt.Sprintf("v%d", si+1)
				if perTemplateNames {
					name = fmt.Sprintf("v%dt%d", si+1, ti)
				}
				path += "/{" + name + "}"
				schema := M{"type": "string"}
				if typed {
					schema = CloneM(pathVarTypes[rng.Intn(len(pathVarTypes))])
				}
				if rng.Intn(4) == 0 {
					// the same schema reached through a component
					cn := "PV" + letters(ti) + letters(si)
					d.Comp("schemas", cn, schema)
					schema = Ref("schemas", cn)
				}
				params = append(params, ParamNode(name, "path", true, schema))
			} else {
				path += "/" + s
			}
		}
		nm := 1 + rng.Intn(3)
		perm := rng.Perm(len(methodsPool))
		// declaration order is independent of template order; some variables are
		// declared at path-item level, the rest per operation
		rng.Shuffle(len(params), func(i, j int) { params[i], params[j] = params[j], params[i] })
		nPathLevel := 0
		if len(params) > 0 && rng.Intn(3) == 0 {
			nPathLevel = 1 + rng.Intn(len(params))
		}
		piParams, opParams := params[:nPathLevel], params[nPathLevel:]
		for _, mi := range perm[:nm] {
			op := M{"responses": M{"200": M{"description": "ok"}, "default": M{"description": "err"}}}
			var ps L
			if len(opParams) > 0 {
				ps = Clone(opParams).(L)
			}
			// an operation may re-declare a path-item level variable with
			// another schema: its own declaration is the effective one
			if typed && len(piParams) > 0 && rng.Intn(2) == 0 {
				pm := CloneM(piParams[rng.Intn(len(piParams))].(M))
				pm["schema"] = CloneM(pathVarTypes[rng.Intn(len(pathVarTypes))])
				ps = append(ps, pm)
			}
			if len(ps) > 0 {
				op["parameters"] = ps
			}
			if security != "" && rng.Intn(3) == 0 {
				op["security"] = L{}
			}
			d.Op(path, methodsPool[mi], op)
		}
		if explicitOptions && rng.Intn(3) == 0 {
			op := M{"responses": M{"204": M{"description": "ok"}}}
			if len(opParams) > 0 {
				op["parameters"] = Clone(opParams)
			}
			d.Op(path, "options", op)
		}
		if len(piParams) > 0 {
			d.PathItem(path)["parameters"] = Clone(piParams)
		}
	}
	return d
}

func routerSetID(ts []tmpl) string {
	var s []string
	for _, t := range ts {
		s = append(s, "/"+t.shape())
	}
	return strings.Join(s, " ")
}

// RouterCases returns n seeded router-family cases plus a fixed part.
func RouterCases(seed int64, n int) []Case {
	rng := rand.New(rand.NewSource(seed*31 + 5))
	var out []Case
	mk := func(id string, ts []tmpl, bf BaseForm, typed, perT bool, sec string, cors, opt bool) {
		d := BuildRouterDoc(rng, ts, bf, typed, perT, sec, opt)
		fl := Flags{Client: rng.Intn(2) == 0, Cors: cors, BasePath: bf.Flag, DoNotEdit: rng.Intn(2) == 0}
		out = append(out, Case{ID: id, Family: "router", Spec: d.Root, Flags: fl, Safe: true,
			Label: map[string]string{"set": routerSetID(ts), "base": bf.ID, "sec": sec, "cors": bstr(cors), "typed": bstr(typed)}})
	}
	// fixed part: hand-picked sets that exercise backtracking, early ending, trailing slashes
	// segments that differ only in characters goag drops from identifiers, and a
	// literal spelled like a sibling's variable (the variable of template 1 at
	// position 2 is named v2)
	{
		for i, set := range [][]string{{"a-b/a", "a_b/b"}, {"a/v2/a", "a/{}/b"}, {"a.b/a", "a-b/{}", "ab/b"}, {"a/-/a", "a/_/b", "a/{}/{}"}, {"café/{}", "größe/{}/b", "日本/a/{}"}, {"2.0/a", "2.0/{}/b", "1/a", "a/b"}} {
			var ts []tmpl
			for _, s := range set {
				ts = append(ts, tmpl{strings.Split(s, "/")})
			}
			mk(fmt.Sprintf("router-names-%02d", i), ts, BaseForms[i%3], false, false, "", false, false)
		}
	}
	{
		// path variables whose inline schema is nullable: a segment is text, "null" included
		d := NewDoc("router-nullable")
		nul := func(t, f string) M { m := Prim(t, f); m["nullable"] = true; return m }
		ok := func(ps ...any) M {
			return M{"parameters": L(ps), "responses": M{"200": M{"description": "ok"}, "default": M{"description": "err"}}}
		}
		d.Op("/orders/{id}", "get", ok(ParamNode("id", "path", true, nul("integer", "int64"))))
		d.Op("/tags/{tag}", "get", ok(ParamNode("tag", "path", true, nul("string", ""))))
		d.Op("/mix/{a}/x/{b}", "put", ok(ParamNode("a", "path", true, nul("string", "")), ParamNode("b", "path", true, nul("integer", "int32"))))
		out = append(out, Case{ID: "router-nullable-variables", Family: "router", Spec: d.Root, Flags: Flags{Client: false}, Safe: true,
			Label: map[string]string{"set": "nullable-variables", "base": "none", "sec": "", "cors": "false", "typed": "true"}})
	}
	fixed := [][]string{
		{"a", "a/{}"}, {"a/{}"}, {"a/{}/{}"}, {"a/a/{}/{}", "a/a"},
		{"{}/a/{}/{}", "{}/{}/a"}, {"a/b", "{}/a"}, {"a/b", "{}/b", "a/{}"},
		{"", "a", "a/"}, {"{}", "{}/"}, {"a/{}/b", "a/b/{}", "{}/b/b"}, {"{}/{}/{}/{}", "a/b/a/b"},
		{"a/", "a/{}", "a/{}/"}, {"{}"}, {"b/{}/a", "b/a/{}", "b/a/a"},
	}
	for i, set := range fixed {
		var ts []tmpl
		for _, s := range set {
			ts = append(ts, tmpl{strings.Split(s, "/")})
		}
		bf := BaseForms[i%8]
		mk(fmt.Sprintf("router-fixed-%02d/base=%s", i, bf.ID), ts, bf, i%2 == 1, false, "", i%3 == 0, false)
	}
	// base-path forms on one fixed set
	for _, bf := range BaseForms {
		ts := []tmpl{{[]string{"a"}}, {[]string{"a", "{}"}}, {[]string{"{}", "b"}}}
		mk("router-base/"+bf.ID, ts, bf, false, false, "", false, false)
	}
	for i := 0; i < n; i++ {
		k := 1 + rng.Intn(8)
		seen := map[string]bool{}
		var ts []tmpl
		for tries := 0; len(ts) < k && tries < 50; tries++ {
			t := randTemplate(rng)
			if seen[t.shape()] {
				continue
			}
			seen[t.shape()] = true
			ts = append(ts, t)
		}
		bf := BaseForms[rng.Intn(8)] // trailing-slash forms only in the fixed part
		sec := []string{"", "", "", "bearer", "apikey"}[rng.Intn(5)]
		cors := rng.Intn(4) == 0
		mk(fmt.Sprintf("router-rand-%04d", i), ts, bf, rng.Intn(2) == 0, rng.Intn(4) == 0, sec, cors, cors && rng.Intn(2) == 0)
	}
	return out
}

// RouterExhaustive enumerates ALL sets of 1..maxSet non-equivalent templates
// of depth <= 2 over the segment alphabet {a, b, {var}, empty-last} (16
// templates; 16 + 120 + 560 sets for maxSet = 3), each with GET and a second
// method on the first template, no base path / "/v1" alternating.
func RouterExhaustive(maxSet int) []Case {
	var ts []tmpl
	first := []string{"a", "b", "{}"}
	for _, s := range append(append([]string{}, first...), "") {
		ts = append(ts, tmpl{[]string{s}})
	}
	for _, s1 := range first {
		for _, s2 := range []string{"a", "b", "{}", ""} {
			ts = append(ts, tmpl{[]string{s1, s2}})
		}
	}
	var out []Case
	rng := rand.New(rand.NewSource(99))
	var rec func(start int, cur []tmpl)
	rec = func(start int, cur []tmpl) {
		if len(cur) > 0 {
			bf := BaseForms[0]
			if len(out)%2 == 1 {
				bf = BaseForms[1]
			}
			d := BuildRouterDoc(rng, cur, bf, false, false, "", false)
			id := fmt.Sprintf("router-exh/%s/base=%s", routerSetID(cur), bf.ID)
			out = append(out, Case{ID: id, Family: "router", Spec: d.Root, Flags: Flags{DoNotEdit: true}, Safe: true,
				Label: map[string]string{"set": routerSetID(cur), "base": bf.ID}})
		}
		if len(cur) == maxSet {
			return
		}
		for i := start; i < len(ts); i++ {
			rec(i+1, append(append([]tmpl{}, cur...), ts[i]))
		}
	}
	rec(0, nil)
	return out
}
