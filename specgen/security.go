package specgen

import (
	"fmt"
	"math/rand"
)

// Security family (C11, C16, C17).

var secSchemeDefs = map[string]M{
	"bearer":    {"type": "http", "scheme": "bearer"},
	"bearercap": {"type": "http", "scheme": "Bearer"}, // the spelling of the IANA registry
	"keyhdr":    {"type": "apiKey", "in": "header", "name": "X-Api-Key"},
	"keyhdr2":   {"type": "apiKey", "in": "header", "name": "X-Second-Key"},
	"keyqry":    {"type": "apiKey", "in": "query", "name": "api_key"},
	"basic":     {"type": "http", "scheme": "basic"},
	"cookie":    {"type": "apiKey", "in": "cookie", "name": "sid"},
	"oauth":     {"type": "oauth2", "flows": M{"implicit": M{"authorizationUrl": "https://example.com/auth", "scopes": M{"read": "r"}}}},
	"oidc":      {"type": "openIdConnect", "openIdConnectUrl": "https://example.com/.well-known/openid-configuration"},
}

func secSupported(s string) bool {
	switch s {
	case "bearer", "bearercap", "keyhdr", "keyhdr2", "keyqry":
		return true
	}
	return false
}

// requirement forms for one operation, given schemes A and B
func secReq(form, a, b string) (any, bool) {
	switch form {
	case "inherit":
		return nil, false
	case "public":
		return L{}, true
	case "A":
		return L{M{a: L{}}}, true
	case "B":
		return L{M{b: L{}}}, true
	case "AorB":
		return L{M{a: L{}}, M{b: L{}}}, true
	case "AandB":
		return L{M{a: L{}, b: L{}}}, true
	case "AorAnon":
		return L{M{a: L{}}, M{}}, true
	case "AnonOrB":
		return L{M{}, M{b: L{}}}, true
	}
	panic(form)
}

var secGlobalForms = []string{"none", "A", "AorB"}
var secOpForms = []string{"inherit", "public", "A", "B", "AorB", "AandB", "AorAnon", "AnonOrB"}

// SecurityCases: the small-configuration space of C11.
func SecurityCases(seed int64, thorough bool) []Case {
	rng := rand.New(rand.NewSource(seed*131 + 7))
	var out []Case
	pairs := [][2]string{{"bearer", "keyhdr"}, {"keyhdr", "keyqry"}, {"bearer", "keyqry"}, {"keyhdr", "keyhdr2"}, {"keyqry", "bearer"},
		{"bearer", "basic"}, {"keyhdr", "oauth"}, {"cookie", "keyhdr"}, {"oidc", "bearer"}, {"keyqry", "keyqry"}, {"bearer", "bearer"}, {"bearercap", "keyhdr"}, {"keyqry", "bearercap"}, {"basic", "bearer"}}
	layouts := []string{"same-path", "two-paths", "var-path"}
	id := 0
	for pi, pr := range pairs {
		a, b := pr[0], pr[1]
		for _, g := range secGlobalForms {
			for _, f1 := range secOpForms {
				for _, f2 := range secOpForms {
					id++
					// quick: a seeded third of the space; known-defect shapes are always included below
					if !thorough && rng.Intn(6) != 0 {
						continue
					}
					layout := layouts[(id+pi)%3]
					d := NewDoc("sec")
					d.Comp("securitySchemes", "A_"+a, CloneM(secSchemeDefs[a]))
					if b != a {
						d.Comp("securitySchemes", "B_"+b, CloneM(secSchemeDefs[b]))
					}
					an, bn := "A_"+a, "B_"+b
					if b == a {
						bn = an
					}
					switch g {
					case "A":
						d.Root["security"] = L{M{an: L{}}}
					case "AorB":
						d.Root["security"] = L{M{an: L{}}, M{bn: L{}}}
					}
					mkop := func(form string) M {
						op := M{"responses": M{"200": M{"description": "ok"}, "default": M{"description": "e"}}}
						if v, own := secReq(form, an, bn); own {
							op["security"] = v
						}
						return op
					}
					var p1, p2, p3 string
					switch layout {
					case "same-path":
						p1, p2, p3 = "/r", "/r", "/r"
					case "two-paths":
						p1, p2, p3 = "/r", "/s", "/r"
					default:
						p1, p2, p3 = "/r/{id}", "/r/{id}", "/r"
					}
					d.Op(p1, "get", mkop(f1))
					d.Op(p2, "post", mkop(f2))
					d.Op(p3, "delete", mkop("inherit"))
					for _, p := range []string{p1, p2} {
						if p == "/r/{id}" {
							d.PathItem(p)["parameters"] = L{ParamNode("id", "path", true, Prim("string", ""))}
						}
					}
					safe := secSupported(a) && secSupported(b) && f1 != "AandB" && f2 != "AandB"
					out = append(out, Case{ID: fmt.Sprintf("sec/%s+%s/g=%s/op1=%s/op2=%s/%s", a, b, g, f1, f2, layout), Family: "security", Spec: d.Root,
						Flags: Flags{Client: id%2 == 0, Cors: id%5 == 0}, Safe: safe,
						Label: map[string]string{"set": fmt.Sprintf("%s+%s g=%s %s/%s", a, b, g, f1, f2), "base": layout}})
				}
			}
		}
	}
	for _, cors := range []bool{true, false} {
		// OPTIONS operations the spec declares itself are operations like any other:
		// secured by their effective requirement, with or without CORS support
		d := NewDoc("sec-options")
		d.Comp("securitySchemes", "A_bearer", CloneM(secSchemeDefs["bearer"]))
		d.Comp("securitySchemes", "B_keyhdr", CloneM(secSchemeDefs["keyhdr"]))
		d.Root["security"] = L{M{"A_bearer": L{}}}
		ok := func(sec any) M {
			op := M{"responses": M{"200": M{"description": "ok"}, "default": M{"description": "e"}}}
			if sec != nil {
				op["security"] = sec
			}
			return op
		}
		d.Op("/r", "get", ok(nil))
		d.Op("/r", "options", ok(nil))
		d.Op("/s", "options", ok(L{M{"B_keyhdr": L{}}}))
		d.Op("/s", "post", ok(L{}))
		d.Op("/t", "options", ok(L{}))
		d.Op("/t/{id}", "options", ok(L{M{"A_bearer": L{}}, M{"B_keyhdr": L{}}}))
		d.PathItem("/t/{id}")["parameters"] = L{ParamNode("id", "path", true, Prim("string", ""))}
		id := fmt.Sprintf("sec/fixed-declared-options/cors=%v", cors)
		out = append(out, Case{ID: id, Family: "security", Spec: d.Root, Flags: Flags{Cors: cors}, Safe: true, Label: map[string]string{"set": id}})
	}
	return out
}
