// Package specgen builds the OpenAPI corpus: fixed feature-matrix cells,
// name/text shape cells, purpose-built families for the run-time properties
// and seeded random compositions. Documents are Go trees emitted as JSON.
package specgen

import (
	"bytes"
	"encoding/json"
	"fmt"
	"sort"
	"strings"
)

type M = map[string]any
type L = []any

// Flags are the generator options of one invocation.
type Flags struct {
	Client       bool   `json:"client"`
	DoNotEdit    bool   `json:"donotedit"`
	Cors         bool   `json:"cors"`
	BasePath     string `json:"basepath"`       // --basepath
	NoAPIHandler bool   `json:"no_api_handler"` // --api-handler=false
	SpecName     string `json:"spec_name"`      // --spec-handler-name ("" = default)
}

func (f Flags) String() string {
	b := func(x bool) string {
		if x {
			return "1"
		}
		return "0"
	}
	s := "cl" + b(f.Client) + ",dne" + b(f.DoNotEdit) + ",cors" + b(f.Cors)
	if f.BasePath != "" {
		s += ",bp=" + f.BasePath
	}
	if f.NoAPIHandler {
		s += ",noapi"
	}
	return s
}

// Case is one generator input.
type Case struct {
	ID     string            `json:"id"`
	Family string            `json:"family"`
	Spec   M                 `json:"-"`
	Flags  Flags             `json:"flags"`
	Label  map[string]string `json:"label,omitempty"`
	// Safe: the case lies in the safe sub-dialect: goag is expected to
	// generate it and the result to compile.
	Safe bool `json:"safe"`
	// Raw, when non-nil, is the literal spec file content (else JSON of Spec).
	Raw []byte `json:"-"`
	// Ext is the spec file extension (".json" default, ".yaml").
	Ext string `json:"-"`
	// CfgRaw, when non-nil, is the literal .goag.yaml content.
	CfgRaw []byte `json:"-"`
	// Aux carries family-specific data for the driver.
	Aux M `json:"aux,omitempty"`
}

func (c Case) SpecBytes() []byte {
	if c.Raw != nil {
		return c.Raw
	}
	return MustJSON(c.Spec)
}

func MustJSON(v any) []byte {
	var buf bytes.Buffer
	enc := json.NewEncoder(&buf)
	enc.SetEscapeHTML(false)
	enc.SetIndent("", " ")
	if err := enc.Encode(v); err != nil {
		panic(err)
	}
	return buf.Bytes()
}

// Clone deep-copies a JSON tree.
func Clone(v any) any {
	switch t := v.(type) {
	case M:
		o := make(M, len(t))
		for k, x := range t {
			o[k] = Clone(x)
		}
		return o
	case L:
		o := make(L, len(t))
		for i, x := range t {
			o[i] = Clone(x)
		}
		return o
	}
	return v
}

func CloneM(m M) M { return Clone(m).(M) }

// ---- document builder -------------------------------------------------

type Doc struct{ Root M }

func NewDoc(title string) *Doc {
	return &Doc{Root: M{
		"openapi": "3.0.3",
		"info":    M{"title": title, "version": "1.0.0"},
		"paths":   M{},
	}}
}

func (d *Doc) Paths() M { return d.Root["paths"].(M) }

func (d *Doc) PathItem(p string) M {
	ps := d.Paths()
	pi, ok := ps[p].(M)
	if !ok {
		pi = M{}
		ps[p] = pi
	}
	return pi
}

// Op adds an operation and returns its node.
func (d *Doc) Op(path, method string, op M) M {
	if op == nil {
		op = M{}
	}
	if _, ok := op["responses"]; !ok {
		op["responses"] = M{"200": M{"description": "ok"}}
	}
	d.PathItem(path)[strings.ToLower(method)] = op
	return op
}

func (d *Doc) Comp(kind, name string, v any) {
	cs, ok := d.Root["components"].(M)
	if !ok {
		cs = M{}
		d.Root["components"] = cs
	}
	k, ok := cs[kind].(M)
	if !ok {
		k = M{}
		cs[kind] = k
	}
	k[name] = v
}

func (d *Doc) Server(url string, vars M) {
	s := M{"url": url}
	if vars != nil {
		s["variables"] = vars
	}
	d.Root["servers"] = L{s}
}

func Ref(kind, name string) M { return M{"$ref": "#/components/" + kind + "/" + name} }

func JSONContent(schema any) M {
	return M{"application/json": M{"schema": schema}}
}

func Resp(desc string, schema any) M {
	r := M{"description": desc}
	if schema != nil {
		r["content"] = JSONContent(schema)
	}
	return r
}

func ParamNode(name, in string, required bool, schema any) M {
	p := M{"name": name, "in": in, "schema": schema}
	if required || in == "path" {
		p["required"] = true
	}
	return p
}

func Obj(required []string, props M) M {
	o := M{"type": "object", "properties": props}
	if len(required) > 0 {
		r := L{}
		for _, s := range required {
			r = append(r, s)
		}
		o["required"] = r
	}
	return o
}

func Prim(t, format string) M {
	s := M{"type": t}
	if format != "" {
		s["format"] = format
	}
	return s
}

func Arr(items any) M { return M{"type": "array", "items": items} }

func sortedKeys[T any](m map[string]T) []string {
	ks := make([]string, 0, len(m))
	for k := range m {
		ks = append(ks, k)
	}
	sort.Strings(ks)
	return ks
}

func labelID(parts ...string) string { return strings.Join(parts, ",") }

func bstr(b bool) string {
	if b {
		return "1"
	}
	return "0"
}

var _ = fmt.Sprintf
