package specgen

import (
	"fmt"
	"math/rand"
	"sort"
	"strings"
)

// Mutant is one structural mutation of a JSON tree.
type Mutant struct {
	ID   string // "<op>@<json-pointer>"
	Op   string
	Path string
	Doc  M
}

type nodeRef struct {
	path   []string
	parent any // M or L
	key    string
	idx    int
}

func walkNodes(v any, path []string, parent any, key string, idx int, out *[]nodeRef) {
	if parent != nil {
		*out = append(*out, nodeRef{path: append([]string{}, path...), parent: parent, key: key, idx: idx})
	}
	switch t := v.(type) {
	case M:
		ks := make([]string, 0, len(t))
		for k := range t {
			ks = append(ks, k)
		}
		sort.Strings(ks)
		for _, k := range ks {
			walkNodes(t[k], append(path, k), t, k, -1, out)
		}
	case L:
		for i, x := range t {
			walkNodes(x, append(path, fmt.Sprint(i)), t, "", i, out)
		}
	}
}

func getAt(root any, path []string) (parent any, key string, idx int, ok bool) {
	cur := root
	for i, p := range path {
		last := i == len(path)-1
		switch t := cur.(type) {
		case M:
			if last {
				_, ok := t[p]
				return t, p, -1, ok
			}
			cur = t[p]
		case L:
			var n int
			fmt.Sscanf(p, "%d", &n)
			if n >= len(t) {
				return nil, "", 0, false
			}
			if last {
				return t, "", n, true
			}
			cur = t[n]
		default:
			return nil, "", 0, false
		}
	}
	return nil, "", 0, false
}

func setAt(root M, path []string, v any, del bool) bool {
	parent, key, idx, ok := getAt(root, path)
	if !ok {
		return false
	}
	switch t := parent.(type) {
	case M:
		if del {
			delete(t, key)
		} else {
			t[key] = v
		}
	case L:
		if del {
			return false
		}
		t[idx] = v
	}
	return true
}

func valueAt(root M, path []string) any {
	parent, key, idx, ok := getAt(root, path)
	if !ok {
		return nil
	}
	switch t := parent.(type) {
	case M:
		return t[key]
	case L:
		return t[idx]
	}
	return nil
}

func ptr(path []string) string { return "/" + strings.Join(path, "/") }

// swapType returns a value of another JSON type.
func swapType(v any, k int) any {
	alts := []any{"str", 7.0, true, M{}, L{}, M{"x": "y"}, L{"a"}, 1.5, ""}
	for i := 0; i < len(alts); i++ {
		a := alts[(k+i)%len(alts)]
		if fmt.Sprintf("%T", a) != fmt.Sprintf("%T", v) {
			return a
		}
	}
	return nil
}

// Mutants derives up to max structural mutants of doc (seeded sample of the
// generic ones, all of the targeted ones).
func Mutants(doc M, seed int64, max int) []Mutant {
	var nodes []nodeRef
	walkNodes(doc, nil, nil, "", 0, &nodes)
	rng := rand.New(rand.NewSource(seed))
	var out []Mutant
	add := func(op string, path []string, fn func(d M) bool) {
		d := CloneM(doc)
		if fn(d) {
			out = append(out, Mutant{ID: op + "@" + ptr(path), Op: op, Path: ptr(path), Doc: d})
		}
	}
	// targeted mutations
	for _, n := range nodes {
		last := n.path[len(n.path)-1]
		p := n.path
		switch last {
		case "schema":
			add("drop-schema", p, func(d M) bool { return setAt(d, p, nil, true) })
			add("null-schema", p, func(d M) bool { return setAt(d, p, nil, false) })
			// parameter / header: content instead of schema
			if len(p) >= 2 {
				pp := p[:len(p)-1]
				add("content-param", p, func(d M) bool {
					parent, _ := valueAt(d, pp).(M)
					if parent == nil {
						return false
					}
					if _, isParam := parent["in"]; !isParam {
						return false
					}
					s := parent["schema"]
					delete(parent, "schema")
					parent["content"] = M{"application/json": M{"schema": s}}
					return true
				})
				add("content-param-text", p, func(d M) bool {
					parent, _ := valueAt(d, pp).(M)
					if parent == nil {
						return false
					}
					if _, isParam := parent["in"]; !isParam {
						return false
					}
					s := parent["schema"]
					delete(parent, "schema")
					parent["content"] = M{"text/plain": M{"schema": s}}
					return true
				})
			}
		case "items":
			add("drop-items", p, func(d M) bool { return setAt(d, p, nil, true) })
		case "type":
			for _, t := range []string{"null", "file", "int", "array", "object", "string", "integer"} {
				t := t
				add("type="+t, p, func(d M) bool {
					if valueAt(d, p) == t {
						return false
					}
					return setAt(d, p, t, false)
				})
			}
		case "format":
			for _, f := range []string{"uuid", "int8", "decimal", "email", "date-time", "int32"} {
				f := f
				add("format="+f, p, func(d M) bool { return setAt(d, p, f, false) })
			}
		case "$ref":
			add("ref-missing", p, func(d M) bool { return setAt(d, p, "#/components/schemas/DoesNotExist", false) })
			add("ref-wrong-kind", p, func(d M) bool { return setAt(d, p, "#/components/parameters/Nope", false) })
			add("ref-self", p, func(d M) bool {
				// make the target of this reference refer to itself
				ref, _ := valueAt(d, p).(string)
				parts := strings.Split(strings.TrimPrefix(ref, "#/"), "/")
				if len(parts) != 3 {
					return false
				}
				return setAt(d, parts, M{"$ref": ref}, false)
			})
		case "default":
			add("default-number", p, func(d M) bool { return setAt(d, p, 5.0, false) })
			add("default-drop", p, func(d M) bool { return setAt(d, p, nil, true) })
		case "in":
			add("in=cookie", p, func(d M) bool { return setAt(d, p, "cookie", false) })
		case "required":
			add("required-unknown", p, func(d M) bool {
				if l, ok := valueAt(d, p).(L); ok {
					return setAt(d, p, append(L{"no_such_property"}, l...), false)
				}
				return false
			})
		case "responses", "properties", "paths", "content", "variables", "mapping", "headers":
			add("empty-map", p, func(d M) bool { return setAt(d, p, M{}, false) })
		}
	}
	// document-level targeted mutations
	if paths, ok := doc["paths"].(M); ok {
		for _, pk := range sortedKeys(paths) {
			// a path template that uses one variable name twice
			first := strings.Index(pk, "{")
			if first < 0 {
				continue
			}
			end := strings.Index(pk[first:], "}")
			if end < 0 {
				continue
			}
			name := pk[first+1 : first+end]
			pk := pk
			add("duplicate-path-variable", []string{"paths", pk}, func(d M) bool {
				ps := d["paths"].(M)
				ps[pk+"/again/{"+name+"}"] = ps[pk]
				delete(ps, pk)
				return true
			})
			break
		}
	}
	if comps, ok := doc["components"].(M); ok {
		if schemas, ok := comps["schemas"].(M); ok {
			for i, sk := range sortedKeys(schemas) {
				if i > 2 {
					break
				}
				sk := sk
				for _, gt := range []string{"github.com/foo/Bar", "Bar", "pkg.", ".Bar", "a/b/c", ""} {
					gt := gt
					add("x-goag-go-type="+gt, []string{"components", "schemas", sk}, func(d M) bool {
						sm, ok := d["components"].(M)["schemas"].(M)[sk].(M)
						if !ok {
							return false
						}
						sm["x-goag-go-type"] = gt
						return true
					})
				}
			}
		}
	}
	// a recursive alias / array pair used as a query parameter, a header parameter and a body
	for _, where := range []string{"query", "header", "body", "resphdr", "query-items", "header-items", "resphdr-items", "resphdr-self"} {
		where := where
		add("recursive-array-alias-"+where, []string{"components", "schemas"}, func(d M) bool {
			comps, ok := d["components"].(M)
			if !ok {
				comps = M{}
				d["components"] = comps
			}
			schemas, ok := comps["schemas"].(M)
			if !ok {
				schemas = M{}
				comps["schemas"] = schemas
			}
			schemas["VerifAlias"] = M{"$ref": "#/components/schemas/VerifTree"}
			schemas["VerifTree"] = M{"type": "array", "items": M{"$ref": "#/components/schemas/VerifAlias"}}
			paths, ok := d["paths"].(M)
			if !ok {
				return false
			}
			op := M{"responses": M{"200": M{"description": "ok"}}}
			// the schema as used: the recursive component itself, or an inline
			// array whose items are the recursive component
			var use any = M{"$ref": "#/components/schemas/VerifTree"}
			loc := where
			if strings.HasSuffix(where, "-items") {
				use = M{"type": "array", "items": M{"$ref": "#/components/schemas/VerifTree"}}
				loc = strings.TrimSuffix(where, "-items")
			}
			if where == "resphdr-self" {
				schemas["VerifSelf"] = M{"type": "array", "items": M{"$ref": "#/components/schemas/VerifSelf"}}
				use = M{"$ref": "#/components/schemas/VerifSelf"}
				loc = "resphdr"
			}
			switch loc {
			case "body":
				op["requestBody"] = M{"content": M{"application/json": M{"schema": use}}}
			case "resphdr":
				op["responses"] = M{"200": M{"description": "ok", "headers": M{"X-Tree": M{"schema": use}}}}
			default:
				op["parameters"] = L{M{"name": "tree", "in": loc, "schema": use}}
			}
			paths["/verif-recursive"] = M{"post": op}
			return true
		})
	}
	// alias graphs among the components of one kind: plain cycles and chains
	// whose tail leads into a cycle (the tail key sorting before / after it)
	for _, kind := range []string{"schemas", "parameters", "headers", "requestBodies", "responses", "securitySchemes"} {
		for _, shape := range []string{"cycle-2", "cycle-3", "tail-first-into-cycle", "tail-last-into-cycle", "tail-into-self-loop"} {
			kind, shape := kind, shape
			add("alias-graph-"+shape+"-"+kind, []string{"components", kind}, func(d M) bool {
				comps, ok := d["components"].(M)
				if !ok {
					comps = M{}
					d["components"] = comps
				}
				km, ok := comps[kind].(M)
				if !ok {
					km = M{}
					comps[kind] = km
				}
				ref := func(n string) M { return M{"$ref": "#/components/" + kind + "/" + n} }
				switch shape {
				case "cycle-2":
					km["VerifCycA"], km["VerifCycB"] = ref("VerifCycB"), ref("VerifCycA")
				case "cycle-3":
					km["VerifCycA"], km["VerifCycB"], km["VerifCycC"] = ref("VerifCycB"), ref("VerifCycC"), ref("VerifCycA")
				case "tail-first-into-cycle":
					km["AaaVerifTail"], km["VerifRhoB"], km["VerifRhoC"] = ref("VerifRhoB"), ref("VerifRhoC"), ref("VerifRhoB")
				case "tail-last-into-cycle":
					km["ZzzVerifTail"], km["VerifRhoB"], km["VerifRhoC"] = ref("VerifRhoB"), ref("VerifRhoC"), ref("VerifRhoB")
				case "tail-into-self-loop":
					km["AaaVerifTail"], km["VerifLoop"] = ref("VerifLoop"), ref("VerifLoop")
				}
				return true
			})
		}
	}
	// compositions nested inline: an allOf whose inline member is a oneOf / an
	// allOf / an array; a oneOf whose inline member is an allOf
	for _, shape := range []string{"allof-inline-oneof", "allof-inline-allof", "allof-inline-array", "oneof-inline-allof", "allof-inline-empty"} {
		shape := shape
		add("nested-composition-"+shape, []string{"components", "schemas"}, func(d M) bool {
			comps, ok := d["components"].(M)
			if !ok {
				comps = M{}
				d["components"] = comps
			}
			schemas, ok := comps["schemas"].(M)
			if !ok {
				schemas = M{}
				comps["schemas"] = schemas
			}
			objA := M{"type": "object", "properties": M{"a": M{"type": "string"}}}
			objB := M{"type": "object", "properties": M{"b": M{"type": "integer"}}}
			schemas["VerifLeafA"], schemas["VerifLeafB"] = objA, objB
			refA, refB := M{"$ref": "#/components/schemas/VerifLeafA"}, M{"$ref": "#/components/schemas/VerifLeafB"}
			switch shape {
			case "allof-inline-oneof":
				schemas["VerifNested"] = M{"allOf": L{refA, M{"oneOf": L{refA, refB}}}}
			case "allof-inline-allof":
				schemas["VerifNested"] = M{"allOf": L{refA, M{"allOf": L{refB, M{"type": "object", "properties": M{"c": M{"type": "boolean"}}}}}}}
			case "allof-inline-array":
				schemas["VerifNested"] = M{"allOf": L{refA, M{"type": "array", "items": M{"type": "string"}}}}
			case "oneof-inline-allof":
				schemas["VerifNested"] = M{"oneOf": L{refA, M{"allOf": L{refB, M{"type": "object", "properties": M{"c": M{"type": "boolean"}}}}}}}
			case "allof-inline-empty":
				schemas["VerifNested"] = M{"allOf": L{refA, M{}}}
			}
			paths, ok := d["paths"].(M)
			if !ok {
				return false
			}
			paths["/verif-nested"] = M{"post": M{"requestBody": M{"content": M{"application/json": M{"schema": M{"$ref": "#/components/schemas/VerifNested"}}}}, "responses": M{"200": M{"description": "ok"}}}}
			return true
		})
	}
	// server variables whose defaults mention variables (one another, themselves)
	for _, shape := range []string{"mutual-growing", "self-growing", "mutual-plain", "chain", "undefined"} {
		shape := shape
		add("server-variable-defaults-"+shape, []string{"servers"}, func(d M) bool {
			vars := M{}
			switch shape {
			case "mutual-growing":
				vars["base"], vars["root"] = M{"default": "{root}/v1"}, M{"default": "{base}"}
			case "self-growing":
				vars["base"], vars["root"] = M{"default": "{base}/v1"}, M{"default": "r"}
			case "mutual-plain":
				vars["base"], vars["root"] = M{"default": "{root}"}, M{"default": "{base}"}
			case "chain":
				vars["base"], vars["root"] = M{"default": "{root}/x"}, M{"default": "api"}
			case "undefined":
				vars["base"], vars["root"] = M{"default": "{nowhere}"}, M{"default": "r"}
			}
			d["servers"] = L{M{"url": "https://example.com/{base}/{root}", "variables": vars}}
			return true
		})
	}
	// a null entry in each component map (and in a few other maps the loader
	// lets through)
	for _, kind := range []string{"schemas", "parameters", "headers", "requestBodies", "responses", "securitySchemes", "links", "examples", "callbacks"} {
		kind := kind
		add("null-component-entry-"+kind, []string{"components", kind}, func(d M) bool {
			comps, ok := d["components"].(M)
			if !ok {
				comps = M{}
				d["components"] = comps
			}
			km, ok := comps[kind].(M)
			if !ok {
				km = M{}
				comps[kind] = km
			}
			km["VerifNull"] = nil
			return true
		})
	}
	targeted := len(out)
	// generic mutations on a seeded sample of nodes
	perm := rng.Perm(len(nodes))
	for _, i := range perm {
		if len(out)-targeted >= max {
			break
		}
		n := nodes[i]
		p := n.path
		if _, isMap := n.parent.(M); isMap {
			add("delete", p, func(d M) bool { return setAt(d, p, nil, true) })
		}
		add("null", p, func(d M) bool { return setAt(d, p, nil, false) })
		k := rng.Intn(9)
		add("swap", p, func(d M) bool {
			nv := swapType(valueAt(d, p), k)
			if nv == nil {
				return false
			}
			return setAt(d, p, nv, false)
		})
	}
	return out
}
