package specgen

import (
	"fmt"

	"gopkg.in/yaml.v3"
)

// YAMLToTree parses YAML into the generic M/L tree (keys stringified).
func YAMLToTree(bs []byte) (M, error) {
	var v any
	if err := yaml.Unmarshal(bs, &v); err != nil {
		return nil, err
	}
	t, ok := conv(v).(M)
	if !ok {
		return nil, fmt.Errorf("top level is not a mapping")
	}
	return t, nil
}

func conv(v any) any {
	switch t := v.(type) {
	case map[string]any:
		o := M{}
		for k, x := range t {
			o[k] = conv(x)
		}
		return o
	case map[any]any:
		o := M{}
		for k, x := range t {
			o[fmt.Sprint(k)] = conv(x)
		}
		return o
	case []any:
		o := make(L, len(t))
		for i, x := range t {
			o[i] = conv(x)
		}
		return o
	case int:
		return float64(t)
	case int64:
		return float64(t)
	}
	return v
}
