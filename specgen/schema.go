package specgen

import (
	"fmt"
	"math/rand"
	"strings"
)

// Schema family (C06, C07, C08, C18): component schemas used as request and
// response bodies. Part (a): the matrix cells at JSON positions (their
// stage-G outcome decides whether they can be driven). Part (b): seeded
// nested compositions drawn from the safe sub-dialect (nesting <= 3).

func jsonPositions(p string) bool {
	switch p {
	case "prop", "item", "addl", "comp", "reqbody":
		return true
	}
	return false
}

type schemaGen struct {
	rng   *rand.Rand
	d     *Doc
	ncomp int
	nobj  int
}

func (g *schemaGen) prim() M {
	switch g.rng.Intn(9) {
	case 0:
		return Prim("string", "")
	case 1:
		return Prim("string", "date-time")
	case 2:
		return Prim("integer", "")
	case 3:
		return Prim("integer", "int32")
	case 4:
		return Prim("integer", "int64")
	case 5:
		return Prim("number", "")
	case 6:
		return Prim("number", "float")
	case 7:
		return Prim("boolean", "")
	}
	return Prim("string", "date")
}

// component adds a new object-kind component and returns a $ref to it.
func (g *schemaGen) component(depth int) M {
	g.ncomp++
	name := fmt.Sprintf("C%d", g.ncomp)
	var s M
	switch g.rng.Intn(7) {
	case 6:
		// two-level inheritance: allOf[$ref to a component that is itself an allOf, inline]
		g.ncomp++
		mid := fmt.Sprintf("C%d", g.ncomp)
		g.d.Comp("schemas", mid, M{"allOf": L{g.refObjectRequired(depth + 1), g.flatObject()}})
		s = M{"allOf": L{Ref("schemas", mid), g.flatObject()}}
	case 0:
		s = Arr(g.refObject(depth + 1))
	case 1:
		s = M{} // any
	case 2:
		s = g.oneOf(depth+1, g.rng.Intn(2) == 0)
	case 3:
		// allOf in the orders that encode correctly: ref(with a required property)+inline, inline+inline
		if g.rng.Intn(2) == 0 {
			s = M{"allOf": L{g.refObjectRequired(depth + 1), g.flatObject()}}
		} else {
			s = M{"allOf": L{g.flatObject(), g.object2(depth + 1)}}
		}
	default:
		s = g.object(depth+1, true)
	}
	if g.rng.Intn(6) == 0 {
		switch s["type"] {
		case "object":
			s["nullable"] = true
		}
	}
	g.d.Comp("schemas", name, s)
	return Ref("schemas", name)
}

func (g *schemaGen) refObject(depth int) M {
	g.ncomp++
	name := fmt.Sprintf("C%d", g.ncomp)
	g.d.Comp("schemas", name, g.object(depth, true))
	return Ref("schemas", name)
}

func (g *schemaGen) refObjectRequired(depth int) M {
	g.ncomp++
	name := fmt.Sprintf("C%d", g.ncomp)
	o := g.object(depth, false)

	o["properties"].(M)["base_id"] = Prim("string", "")
	o["required"] = L{"base_id"}
	g.d.Comp("schemas", name, o)
	return Ref("schemas", name)
}

func (g *schemaGen) oneOf(depth int, disc bool) M {
	n := 2 + g.rng.Intn(2)
	var members L
	mapping := M{}
	for i := 0; i < n; i++ {
		g.ncomp++
		name := fmt.Sprintf("C%d", g.ncomp)
		o := g.object(depth, false)
		props := o["properties"].(M)
		req := L{"only_" + letters(i)}
		props["only_"+letters(i)] = Prim("string", "")
		if disc {
			props["kind"] = Prim("string", "")
			req = append(req, "kind")
		}
		o["required"] = req
		g.d.Comp("schemas", name, o)
		members = append(members, Ref("schemas", name))
		if i == 0 || g.rng.Intn(3) != 0 {
			// explicit keys for some members only (the others are addressed by their schema name)
			mapping[fmt.Sprintf("k%d", i)] = "#/components/schemas/" + name
		}
	}
	s := M{"oneOf": members}
	if disc {
		dm := M{"propertyName": "kind"}
		if g.rng.Intn(2) == 0 {
			dm["mapping"] = mapping
		}
		s["discriminator"] = dm
	}
	return s
}

// flatObject: primitive properties only (inline allOf members with nested
// inline objects are declared twice by goag: recorded C01 finding).
func (g *schemaGen) flatObject() M {
	g.nobj++
	props := M{}
	var req []string
	n := 1 + g.rng.Intn(4)
	for i := 0; i < n; i++ {
		name := "flat_" + letters(g.nobj) + "_" + letters(i)
		props[name] = g.prim()
		if g.rng.Intn(2) == 0 {
			req = append(req, name)
		}
	}
	return Obj(req, props)
}

func (g *schemaGen) object2(depth int) M {
	return Obj([]string{"second_req"}, M{"second_req": g.prim(), "second_opt": Prim("string", "")})
}

// object builds an object schema with 1-6 properties from the safe sub-dialect.
func (g *schemaGen) object(depth int, allowAddl bool) M {
	props := M{}
	var req []string
	n := 1 + g.rng.Intn(6)
	g.nobj++
	pre := g.nobj
	for i := 0; i < n; i++ {
		name := []string{"a", "name", "value", "count", "at", "list"}[g.rng.Intn(6)] + "_" + letters(pre) + "_" + letters(i)
		var s M
		k := g.rng.Intn(12)
		switch {
		case k <= 3:
			s = g.prim()
			if t, _ := s["type"].(string); t == "string" && g.rng.Intn(3) == 0 {
				s["nullable"] = true // nullable strings (incl. date-time) are supported inline
			}
		case k == 4:
			s = Arr(g.primNoTime())
			if g.rng.Intn(4) == 0 {
				s["nullable"] = true
			}
		case k == 5 && depth < 3:
			s = Arr(g.refObject(depth + 1))
		case k == 6 && depth < 3:
			s = Arr(g.object(depth+1, false))
		case k == 7 && depth < 3:
			s = g.object(depth+1, false)
			if g.rng.Intn(4) == 0 {
				s["nullable"] = true
			}
		case k == 8 && depth < 3:
			s = g.component(depth)
		case k == 9:
			s = M{} // any
		case k == 10 && depth < 3:
			s = M{"type": "object", "additionalProperties": g.primNoTime()}
		default:
			s = Prim("string", "")
		}
		props[name] = s
		if g.rng.Intn(2) == 0 {
			req = append(req, name)
		}
	}
	o := Obj(req, props)
	if allowAddl {
		switch g.rng.Intn(6) {
		case 0:
			o["additionalProperties"] = true
		case 1:
			o["additionalProperties"] = g.primNoTime()
		case 2:
			if depth < 3 {
				o["additionalProperties"] = g.refObject(depth + 1)
			}
		}
	}
	return o
}

func (g *schemaGen) primNoTime() M {
	for {
		p := g.prim()
		if p["format"] != "date-time" {
			return p
		}
	}
}

// SchemaFixedCases: hand-written schema shapes for the JSON checks only
// (C06-C08); some carry recorded findings on the encode side, which is why
// the other consumers of the schema family do not get them.
func SchemaFixedCases() []Case {
	var out []Case
	mk := func(id string, fill func(d *Doc)) {
		d := NewDoc(id)
		fill(d)
		d.Op("/t", "post", M{
			"requestBody": M{"required": true, "content": JSONContent(Ref("schemas", "Root"))},
			"responses":   M{"200": Resp("ok", Ref("schemas", "Root")), "default": M{"description": "e"}},
		})
		out = append(out, Case{ID: id, Family: "schema", Spec: d.Root, Flags: Flags{Client: true}, Safe: false, Label: map[string]string{"set": id}})
	}
	plain := func() M { return Obj([]string{"name"}, M{"name": Prim("string", ""), "nick": Prim("string", "")}) }
	mk("schema-fixed-allof-plain-ref-then-typed-addl-ref", func(d *Doc) {
		extra := Obj(nil, M{"x": Prim("integer", "int64")})
		extra["additionalProperties"] = Prim("integer", "int64")
		d.Comp("schemas", "Plain", plain())
		d.Comp("schemas", "Extra", extra)
		d.Comp("schemas", "Root", M{"allOf": L{Ref("schemas", "Plain"), Ref("schemas", "Extra")}})
	})
	mk("schema-fixed-allof-inline-then-addl-true-ref", func(d *Doc) {
		extra := Obj(nil, M{"x": Prim("integer", "int64")})
		extra["additionalProperties"] = true
		d.Comp("schemas", "Extra", extra)
		d.Comp("schemas", "Root", M{"allOf": L{plain(), Ref("schemas", "Extra")}})
	})
	mk("schema-fixed-allof-outer-required-names-ref-member-property", func(d *Doc) {
		d.Comp("schemas", "Base", Obj(nil, M{"id": Prim("integer", "int64"), "tag": Prim("string", "")}))
		d.Comp("schemas", "Root", M{"required": L{"id", "tag"}, "allOf": L{Ref("schemas", "Base"), Obj([]string{"name"}, M{"name": Prim("string", "")})}})
	})
	mk("schema-fixed-allof-outer-required-names-inline-member-property", func(d *Doc) {
		d.Comp("schemas", "Base", Obj(nil, M{"id": Prim("integer", "int64")}))
		d.Comp("schemas", "Root", M{"required": L{"name"}, "allOf": L{Ref("schemas", "Base"), Obj(nil, M{"name": Prim("string", ""), "n": Prim("integer", "int32")})}})
	})
	mk("schema-fixed-open-object-custom-types-ignored", func(d *Doc) {
		// free-form additional properties, generated with `customTypes.ignore`: the
		// option is about x-goag-go-type annotations, the spec has none
		open := Obj([]string{"id"}, M{"id": Prim("integer", "int64"), "note": Prim("string", "")})
		open["additionalProperties"] = true
		d.Comp("schemas", "Open", open)
		d.Comp("schemas", "Root", Obj([]string{"open"}, M{"open": Ref("schemas", "Open"), "any": M{}, "tags": Arr(Prim("string", ""))}))
	})
	out[len(out)-1].CfgRaw = []byte("customTypes:\n  ignore: true\n")
	mk("schema-fixed-inline-map-value-object-nullable-property", func(d *Doc) {
		// the value schema of additionalProperties written in place, with a
		// required, an optional and an optional nullable property
		note := Prim("string", "")
		note["nullable"] = true
		root := Obj([]string{"id"}, M{"id": Prim("integer", "int64")})
		root["additionalProperties"] = Obj([]string{"count"}, M{"count": Prim("integer", "int64"), "tag": Prim("string", ""), "note": note})
		d.Comp("schemas", "Root", root)
	})
	return out
}

// SchemaCases returns the schema family.
func SchemaCases(seed int64, nRandom int, withMatrix bool) []Case {
	var out []Case
	if withMatrix {
		for _, c := range MatrixCases() {
			if !jsonPositions(c.Label["P"]) {
				continue
			}
			if c.Label["P"] == "reqbody" && c.Label["F"] == "cref" {
				continue
			}
			c.Family = "schema-matrix"
			c.Label["set"] = c.ID
			c.Flags = Flags{Client: true}
			out = append(out, c)
		}
	}
	{
		// fixed: an allOf whose $ref member keeps additional properties itself
		d := NewDoc("allof-addl")
		base := Obj([]string{"base_id"}, M{"base_id": Prim("string", ""), "note": Prim("string", "")})
		base["additionalProperties"] = true
		d.Comp("schemas", "Base", base)
		d.Comp("schemas", "Root", M{"allOf": L{Ref("schemas", "Base"), Obj([]string{"own"}, M{"own": Prim("string", ""), "n": Prim("integer", "int64")})}})
		d.Op("/t", "post", M{
			"requestBody": M{"required": true, "content": JSONContent(Ref("schemas", "Root"))},
			"responses":   M{"200": Resp("ok", Ref("schemas", "Root")), "default": M{"description": "e"}},
		})
		id := "schema-fixed-allof-member-with-additional-properties"
		out = append(out, Case{ID: id, Family: "schema", Spec: d.Root, Flags: Flags{Client: true}, Safe: false, Label: map[string]string{"set": id}})
	}
	{
		// fixed: allOf members in every order, one of them with optional properties only
		for _, order := range []string{"optref-inline", "inline-optref", "optref-reqref", "reqref-optref-inline"} {
			d := NewDoc("allof-order")
			d.Comp("schemas", "Opt", Obj(nil, M{"label": Prim("string", ""), "colour": Prim("string", "")}))
			d.Comp("schemas", "Req", Obj([]string{"name"}, M{"name": Prim("string", ""), "rank": Prim("integer", "int32")}))
			inl := Obj([]string{"id"}, M{"id": Prim("integer", "int64"), "note": Prim("string", "")})
			var members L
			for _, m := range strings.Split(order, "-") {
				switch m {
				case "optref":
					members = append(members, Ref("schemas", "Opt"))
				case "reqref":
					members = append(members, Ref("schemas", "Req"))
				default:
					members = append(members, inl)
				}
			}
			d.Comp("schemas", "Root", M{"allOf": members})
			d.Op("/t", "post", M{
				"requestBody": M{"required": true, "content": JSONContent(Ref("schemas", "Root"))},
				"responses":   M{"200": Resp("ok", Ref("schemas", "Root")), "default": M{"description": "e"}},
			})
			id := "schema-fixed-allof-order-" + order
			out = append(out, Case{ID: id, Family: "schema", Spec: d.Root, Flags: Flags{Client: true}, Safe: true, Label: map[string]string{"set": id}})
		}
	}
	for _, c := range SchemaFixedCases() {
		// the two allOf shapes with an additionalProperties member last decode and
		// (since the separator fix) encode correctly: part of the family for every consumer
		if strings.Contains(c.ID, "-addl-") {
			c.Safe = true
			out = append(out, c)
		}
	}
	rng := rand.New(rand.NewSource(seed*977 + 3))
	for i := 0; i < nRandom; i++ {
		d := NewDoc("schemas")
		g := &schemaGen{rng: rng, d: d}
		root := g.object(0, true)
		d.Comp("schemas", "Root", root)
		d.Op("/t", "post", M{
			"requestBody": M{"required": true, "content": JSONContent(Ref("schemas", "Root"))},
			"responses":   M{"200": Resp("ok", Ref("schemas", "Root")), "default": M{"description": "e"}},
		})
		// a second operation with an inline body and one more component
		extra := g.component(1)
		d.Op("/u", "put", M{
			"requestBody": M{"content": JSONContent(Obj([]string{"x"}, M{"x": extra, "y": Prim("string", "")}))},
			"responses":   M{"200": Resp("ok", extra)},
		})
		id := fmt.Sprintf("schema-rand-%04d", i)
		out = append(out, Case{ID: id, Family: "schema", Spec: d.Root, Flags: Flags{Client: true}, Safe: true, Label: map[string]string{"set": id}})
	}
	return out
}

// letters encodes n in base 26 with letters only (goag drops or merges digit
// groups when it derives Go identifiers, which would make names collide).
func letters(n int) string {
	s := ""
	for {
		s = string(rune('a'+n%26)) + s
		n = n/26 - 1
		if n < 0 {
			return "x" + s
		}
	}
}
