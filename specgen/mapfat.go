package specgen

import "fmt"

// MapFat builds a spec with n entries in every map-typed OpenAPI construct
// (C12): paths, schemas, properties, responses, headers, parameters,
// security schemes, schemes inside one requirement, discriminator mapping,
// server variables (one default containing another variable's placeholder),
// media types, oauth2 scopes.
func MapFat(n int) Case {
	d := NewDoc("mapfat")
	names := []string{"alpha", "bravo", "charlie", "delta", "echo", "foxtrot", "golf", "hotel", "india", "juliet"}
	if n > len(names) {
		n = len(names)
	}
	nm := names[:n]
	// server variables; the default of the first contains the placeholder of the last
	vars := M{}
	url := "https://example.com"
	for i, v := range nm {
		def := "s" + v
		if i == 0 {
			def = "x{" + nm[n-1] + "}y"
		}
		vars[v] = M{"default": def}
		url += "/{" + v + "}"
	}
	d.Server(url, vars)
	// security schemes
	var reqAll = M{}
	for i, v := range nm {
		switch i % 3 {
		case 0:
			d.Comp("securitySchemes", "key_"+v, M{"type": "apiKey", "in": "header", "name": "X-Key-" + v})
		case 1:
			d.Comp("securitySchemes", "key_"+v, M{"type": "apiKey", "in": "query", "name": "k" + v})
		default:
			d.Comp("securitySchemes", "key_"+v, M{"type": "apiKey", "in": "header", "name": "X-Other-" + v})
		}
		reqAll["key_"+v] = L{}
	}
	d.Comp("securitySchemes", "bearer", M{"type": "http", "scheme": "bearer"})
	scopes := M{}
	for _, v := range nm {
		scopes["scope:"+v] = "scope " + v
	}
	d.Comp("securitySchemes", "oauth", M{"type": "oauth2", "flows": M{"implicit": M{"authorizationUrl": "https://example.com/auth", "scopes": scopes}}})
	// schemas: n objects with n properties; a oneOf with discriminator mapping of n entries
	var oneOf L
	mapping := M{}
	for i, v := range nm {
		props := M{"kind": Prim("string", "")}
		for j, p := range nm {
			switch (i + j) % 4 {
			case 0:
				props["p_"+p] = Prim("string", "")
			case 1:
				props["p_"+p] = Prim("integer", "int64")
			case 2:
				props["p_"+p] = Prim("boolean", "")
			default:
				props["p_"+p] = Arr(Prim("string", ""))
			}
		}
		o := Obj([]string{"kind", "p_" + nm[0]}, props)
		o["additionalProperties"] = true
		d.Comp("schemas", "S_"+v, o)
		oneOf = append(oneOf, Ref("schemas", "S_"+v))
		mapping["m_"+v] = "#/components/schemas/S_" + v
		mapping["n_"+v] = "#/components/schemas/S_" + nm[(i+1)%n]
	}
	// keys equal up to letter case (distinct Go types, distinct components)
	d.Comp("schemas", "CaseTwin", Obj([]string{"t"}, M{"t": Prim("string", "")}))
	d.Comp("schemas", "caseTwin", Obj([]string{"u"}, M{"u": Prim("integer", "")}))
	d.Comp("schemas", "Union", M{"oneOf": oneOf, "discriminator": M{"propertyName": "kind", "mapping": mapping}})
	// shared headers / parameters / responses
	for i, v := range nm {
		d.Comp("headers", "H_"+v, M{"schema": Prim([]string{"string", "integer", "boolean"}[i%3], "")})
		d.Comp("parameters", "P_"+v, ParamNode("q_"+v, "query", false, Prim("string", "")))
		hs := M{}
		for _, h := range nm {
			hs["X-"+h] = Ref("headers", "H_"+h)
		}
		d.Comp("responses", "R_"+v, M{"description": "r " + v, "headers": hs, "content": M{
			"application/json": M{"schema": Ref("schemas", "S_"+v)},
			"application/xml":  M{"schema": Ref("schemas", "S_"+v)},
			"text/plain":       M{"schema": Prim("string", "")},
			"text/csv":         M{"schema": Prim("string", "")},
		}})
	}
	for i, v := range nm {
		var params L
		for _, p := range nm {
			params = append(params, Ref("parameters", "P_"+p))
		}
		for _, p := range nm {
			params = append(params, ParamNode("X-In-"+p, "header", false, Prim("string", "")))
		}
		resps := M{}
		for j, r := range nm {
			resps[fmt.Sprint(200+j)] = Ref("responses", "R_"+r)
		}
		resps["default"] = M{"description": "d"}
		sec := L{reqAll, M{"bearer": L{}}, M{"oauth": L{"scope:" + v}}}
		d.Op("/"+v, "get", M{"parameters": params, "responses": resps, "security": sec})
		d.Op("/"+v, "post", M{"requestBody": M{"content": M{
			"application/json": M{"schema": Ref("schemas", "Union")},
			"application/xml":  M{"schema": Ref("schemas", "Union")},
			"text/plain":       M{"schema": Prim("string", "")},
		}}, "responses": M{"200": Resp("ok", Ref("schemas", "Union"))}})
		_ = i
	}
	return Case{ID: fmt.Sprintf("mapfat-%d", n), Family: "mapfat", Spec: d.Root, Flags: Flags{Client: true, Cors: true}, Label: map[string]string{"n": fmt.Sprint(n)}}
}
