package specgen

// KitchenSinks: two hand-designed large specs touching every family (C14, C20).
func KitchenSinks() []Case {
	var out []Case
	for variant := 0; variant < 2; variant++ {
		d := NewDoc("kitchen")
		if variant == 1 {
			d.Server("https://example.com/api/v1", nil)
		}
		d.Comp("securitySchemes", "bearer", M{"type": "http", "scheme": "bearer"})
		d.Comp("securitySchemes", "key", M{"type": "apiKey", "in": "header", "name": "X-Api-Key"})
		d.Comp("securitySchemes", "qkey", M{"type": "apiKey", "in": "query", "name": "api_key"})
		d.Root["security"] = L{M{"bearer": L{}}, M{"key": L{}}}
		d.Comp("schemas", "Tag", Obj([]string{"name"}, M{"name": Prim("string", ""), "weight": Prim("number", "")}))
		d.Comp("schemas", "Pet", Obj([]string{"id", "name"}, M{
			"id": Prim("integer", "int64"), "name": Prim("string", ""), "nick": M{"type": "string", "nullable": true},
			"born": Prim("string", "date-time"), "tags": Arr(Ref("schemas", "Tag")), "scores": Arr(Prim("integer", "int32")),
			"meta": M{"type": "object", "additionalProperties": Prim("string", "")}, "extra": M{},
			"owner": Obj([]string{"name"}, M{"name": Prim("string", ""), "age": Prim("integer", "")}),
		}))
		d.Comp("schemas", "NewPet", M{"allOf": L{Ref("schemas", "Tag"), Obj([]string{"kind"}, M{"kind": Prim("string", ""), "age": Prim("integer", "int32")})}})
		d.Comp("schemas", "Cat", Obj([]string{"kind", "lives"}, M{"kind": Prim("string", ""), "lives": Prim("integer", "")}))
		d.Comp("schemas", "Dog", Obj([]string{"kind", "bark"}, M{"kind": Prim("string", ""), "bark": Prim("boolean", "")}))
		d.Comp("schemas", "Animal", M{"oneOf": L{Ref("schemas", "Cat"), Ref("schemas", "Dog")}, "discriminator": M{"propertyName": "kind", "mapping": M{"c": "#/components/schemas/Cat", "d": "#/components/schemas/Dog"}}})
		d.Comp("schemas", "Square", Obj([]string{"label", "side"}, M{"label": Prim("string", ""), "side": Prim("integer", "")}))
		d.Comp("schemas", "Circle", Obj([]string{"label", "radius"}, M{"label": Prim("string", ""), "radius": Prim("integer", "")}))
		d.Comp("schemas", "Shape", M{"oneOf": L{Ref("schemas", "Square"), Ref("schemas", "Circle")}})
		d.Op("/shapes", "post", M{
			"security":    L{},
			"requestBody": M{"required": true, "content": JSONContent(Obj([]string{"shape"}, M{"shape": Ref("schemas", "Shape"), "note": Prim("string", "")}))},
			"responses":   M{"200": Resp("ok", Ref("schemas", "Shape")), "default": M{"description": "e"}},
		})
		d.Comp("schemas", "Pets", Arr(Ref("schemas", "Pet")))
		d.Comp("schemas", "Err", Obj([]string{"message"}, M{"message": Prim("string", ""), "code": Prim("integer", "int32")}))
		d.Comp("parameters", "Limit", ParamNode("limit", "query", false, Prim("integer", "int32")))
		d.Comp("responses", "Error", M{"description": "error", "headers": M{"X-Error-Code": M{"schema": Prim("integer", "")}}, "content": JSONContent(Ref("schemas", "Err"))})
		d.Comp("responses", "NoContent", M{"description": "nothing"})
		d.Comp("responses", "BadRequest", M{"description": "bad request", "content": JSONContent(Ref("schemas", "Err"))})
		d.Comp("headers", "RateLimit", M{"schema": Prim("integer", "int64"), "required": true})
		d.Op("/pets", "get", M{
			"operationId": "listPets",
			"parameters": L{Ref("parameters", "Limit"), ParamNode("tags", "query", false, Arr(Prim("string", ""))), ParamNode("since", "query", false, Prim("string", "date-time")),
				ParamNode("X-Request-Id", "header", false, Prim("string", "")), ParamNode("min", "query", false, Prim("number", "float")), ParamNode("flag", "query", true, Prim("boolean", ""))},
			"responses": M{"200": M{"description": "ok", "headers": M{"X-Next": M{"schema": Prim("string", "")}, "X-Rate": Ref("headers", "RateLimit")}, "content": JSONContent(Ref("schemas", "Pets"))}, "default": Ref("responses", "Error")},
		})
		d.Op("/pets", "post", M{
			"requestBody": M{"required": true, "content": JSONContent(Ref("schemas", "NewPet"))},
			"responses":   M{"201": Resp("created", Ref("schemas", "Pet")), "400": Ref("responses", "BadRequest"), "default": M{"description": "other"}},
		})
		d.Op("/pets/{petId}", "get", M{
			"parameters": L{ParamNode("petId", "path", true, Prim("integer", "int64")), ParamNode("verbose", "query", false, Prim("boolean", ""))},
			"security":   L{},
			"responses":  M{"200": Resp("ok", Ref("schemas", "Pet")), "404": Ref("responses", "NoContent"), "default": Ref("responses", "Error")},
		})
		d.Op("/pets/{petId}", "delete", M{
			"parameters": L{ParamNode("petId", "path", true, Prim("integer", "int64")), ParamNode("X-Reason", "header", true, Prim("string", ""))},
			"security":   L{M{"qkey": L{}}},
			"responses":  M{"204": Ref("responses", "NoContent"), "default": Ref("responses", "Error")},
		})
		d.Op("/pets/{petId}/photo", "put", M{
			"parameters":  L{ParamNode("petId", "path", true, Prim("string", ""))},
			"requestBody": M{"content": M{"application/octet-stream": M{"schema": M{"type": "string", "format": "binary"}}}},
			"responses":   M{"200": M{"description": "ok", "content": M{"application/octet-stream": M{"schema": M{"type": "string", "format": "binary"}}}}, "default": M{"description": "e"}},
		})
		d.Op("/animals", "post", M{
			"requestBody": M{"required": true, "content": JSONContent(Ref("schemas", "Animal"))},
			"responses":   M{"200": Resp("ok", Ref("schemas", "Animal")), "default": Ref("responses", "Error")},
		})
		d.Op("/shops/{shop}/pets/{petId}/tags/", "get", M{
			"parameters": L{ParamNode("shop", "path", true, Prim("string", "")), ParamNode("petId", "path", true, Prim("string", "")), ParamNode("at", "query", false, Prim("string", "date-time"))},
			"responses":  M{"200": Resp("ok", Arr(Ref("schemas", "Tag"))), "default": M{"description": "e"}},
		})
		d.Op("/", "get", M{"security": L{}, "responses": M{"200": Resp("ok", Obj(nil, M{"status": Prim("string", "")}))}})
		id := "kitchen-sink-a"
		fl := Flags{Client: true, Cors: false}
		if variant == 1 {
			id = "kitchen-sink-b"
			fl = Flags{Client: true, Cors: true, DoNotEdit: true}
		}
		out = append(out, Case{ID: id, Family: "kitchen", Spec: d.Root, Flags: fl, Safe: true, Label: map[string]string{"set": id}})
	}
	return out
}
