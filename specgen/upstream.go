package specgen

import (
	"bytes"
	"os"
	"path/filepath"
	"sort"
)

// UpstreamCases returns the specs of the upstream fixtures (tests/*,
// examples/petstore), to be regenerated — never the committed outputs.
// Fixtures that rely on user-written Go types (x-goag-go-type, custom
// maybe/nullable) are generated with `customTypes.ignore: true`, which keeps
// them inside the standard-library-only dialect.
func UpstreamCases(repo string) []Case {
	var out []Case
	dirs, _ := filepath.Glob(filepath.Join(repo, "tests", "*"))
	ex, _ := filepath.Glob(filepath.Join(repo, "examples", "*"))
	dirs = append(dirs, ex...)
	sort.Strings(dirs)
	for _, d := range dirs {
		bs, err := os.ReadFile(filepath.Join(d, "openapi.yaml"))
		if err != nil {
			continue
		}
		c := Case{ID: "upstream/" + filepath.Base(d), Family: "upstream", Raw: bs, Ext: ".yaml", Safe: true,
			Flags: Flags{Client: true, DoNotEdit: false}}
		cfg, err := os.ReadFile(filepath.Join(d, ".goag.yaml"))
		custom := bytes.Contains(bs, []byte("x-goag-go-type")) || bytes.Contains(cfg, []byte("import"))
		switch {
		case custom:
			c.CfgRaw = []byte("customTypes:\n  ignore: true\n")
		case err == nil:
			c.CfgRaw = cfg
			if bytes.Contains(cfg, []byte("enable: true")) {
				c.Flags.Cors = true
			}
		}
		out = append(out, c)
	}
	return out
}
