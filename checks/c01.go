package checks

import (
	"fmt"
	"go/format"
	"os"
	"path/filepath"
	"sort"
	"strings"

	"verif/core"
	"verif/specgen"
)

func init() { Registry["C01"] = C01 }

// C01: successful generation always yields a compilable, formatted package.
func C01(r *core.Run) int {
	vgen, err := r.BuildVgen()
	if err != nil {
		r.Inconclusive("%v", err)
		return r.Finish(nil, nil)
	}
	var cases []specgen.Case
	matrix := specgen.MatrixCases()
	shapes := specgen.ShapeCases()
	comps := specgen.FamilyCases(r.Seed, r.Thorough())
	up := specgen.UpstreamCases(core.RepoDir())
	cases = append(cases, matrix...)
	cases = append(cases, shapes...)
	cases = append(cases, comps...)
	cases = append(cases, up...)
	AssignFlags(cases, r.Seed, true)
	if r.Thorough() {
		// every matrix cell additionally under the opposite client setting
		n := len(matrix)
		for i := 0; i < n; i++ {
			c := cases[i]
			c.ID += "#alt"
			c.Flags.Client = !c.Flags.Client
			c.Flags.Cors = !c.Flags.Cors
			cases = append(cases, c)
		}
	}
	root := filepath.Join(r.Scratch, "c01mod")
	outs, err := Generate(r, vgen, root, cases)
	if err != nil {
		r.Inconclusive("generate: %v", err)
		return r.Finish(nil, nil)
	}
	if err := BuildAll(r, root, "c01mod", outs, false); err != nil {
		r.Inconclusive("build: %v", err)
		return r.Finish(nil, nil)
	}
	tmplSeen := map[string]bool{}
	status := map[string]int{}
	famStatus := map[string]map[string]int{}
	distinct := map[string]bool{}
	var samples []any
	for _, g := range outs {
		status[g.Status]++
		fs := famStatus[g.P.Case.Family]
		if fs == nil {
			fs = map[string]int{}
			famStatus[g.P.Case.Family] = fs
		}
		fs[g.Status]++
		for _, t := range g.Res.Templates {
			tmplSeen[t] = true
		}
		switch g.Status {
		case "ok":
			distinct[g.P.Case.ID] = true
			if len(samples) < 4 && g.P.Idx%97 == 0 {
				samples = append(samples, map[string]any{"case": g.P.Case.ID, "flags": g.P.Case.Flags.String(), "files": core.SortedKeys(g.Res.Files), "status": "generated, gofmt-stable, builds with no module requirement"})
			}
		case "refused":
			distinct[g.P.Case.ID] = true
			if g.P.Case.Safe {
				r.Report(core.Violation{Case: g.P.Case.ID, Class: "refused-safe", Message: core.NormMessage(g.Msgs[0]), Spec: string(g.P.Case.SpecBytes()), Flags: g.P.Case.Flags})
			}
		case "format-error", "gofmt", "build":
			// success reported, broken code left behind: one report per
			// distinct diagnostic line, so that every line has to be
			// accounted for by a known finding
			seenMsg := map[string]bool{}
			for _, m := range g.Msgs {
				m = core.NormMessage(m)
				if strings.HasPrefix(m, "other declaration of") || seenMsg[m] || len(seenMsg) >= 40 {
					continue
				}
				seenMsg[m] = true
				r.Report(core.Violation{Case: g.P.Case.ID, Class: g.Status, Message: m,
					Observed: g.Msgs, Spec: string(g.P.Case.SpecBytes()), Flags: g.P.Case.Flags,
					Expected: "exit status 0 only with gofmt-stable files that build against the standard library alone"})
			}
		case "panic", "fatal":
			// not a success: C15's business; counted here
		}
	}
	// a second, shorter spec generated into the same directories: the files must be fully rewritten
	rerunN := rerunShorter(r, vgen, outs, map[bool]int{false: 60, true: 400}[r.Thorough()])
	// CLI cross-check on a sample: same verdict and same bytes as vgen
	cliN := map[bool]int{false: 40, true: 300}[r.Thorough()]
	cliChecked, cliDiff := crossCheckCLI(r, outs, cliN)
	// the same through --dir: a directory whose spec is refused makes the whole
	// run an error (never a success that leaves broken or missing code behind)
	if cli, err := r.BuildCLI(); err == nil {
		cliChecked += c15DirMode(r, cli, outs)
	}
	var tl []string
	for t := range tmplSeen {
		tl = append(tl, t)
	}
	sort.Strings(tl)
	if len(tl) < 50 {
		r.Inconclusive("only %d templates executed by the corpus", len(tl))
	}
	if status["ok"] < 200 {
		r.Inconclusive("only %d cases generated and built", status["ok"])
	}
	cov := map[string]any{
		"evaluations":         len(outs),
		"distinct_nontrivial": len(distinct),
		"rule":                "one generator run per case (matrix cell K x P x R x N x F, name/text shape cell, seeded composition, upstream fixture) under a seeded configuration; distinct = distinct case ids that goag either generated (then gofmt-idempotence per file + real `go build` in a module without requirements decide) or refused with an error",
		"samples":             samples,
		"status_counts":       status,
		"status_by_family":    famStatus,
		"templates_executed":  tl,
		"cli_cross_checked":   cliChecked,
		"rerun_into_same_dir": rerunN,
		"cli_disagreements":   cliDiff,
	}
	return r.Finish(cov, []string{"the Go toolchain (go build, go/format) is the compile/format oracle", "vgen calls the same GenerateFile entry point as cmd/goag; a sample is re-run through the real CLI and compared byte-wise"})
}

// crossCheckCLI re-runs n cases through the real CLI into fresh directories
// and compares exit status and bytes with what vgen produced.
func crossCheckCLI(r *core.Run, outs []*GenOutcome, n int) (int, int) {
	cli, err := r.BuildCLI()
	if err != nil {
		r.Inconclusive("%v", err)
		return 0, 0
	}
	sample := Sample(outs, n, r.Seed+5)
	checked, diff := 0, 0
	type job struct{ g *GenOutcome }
	ch := make(chan *GenOutcome)
	done := make(chan [2]int)
	for w := 0; w < workers(); w++ {
		go func() {
			c, d := 0, 0
			for g := range ch {
				if g.Status == "fatal" || g.Status == "loader" {
					continue
				}
				p := g.P
				p.Out = p.Out + "-cli"
				out, err := core.RunCmd(r.Scratch, 0+60e9, nil, cli, p.CLIArgs()...)
				c++
				exit0 := err == nil
				vgenOK := g.Res.OK
				if exit0 != vgenOK {
					d++
					cls := "cli-exit-status"
					r.Report(core.Violation{Case: g.P.Case.ID, Class: cls, Message: fmt.Sprintf("CLI exit0=%v but in-process ok=%v", exit0, vgenOK), Observed: core.Trunc(out, 2000), Spec: string(g.P.Case.SpecBytes()), Flags: g.P.Case.Flags})
					continue
				}
				if exit0 {
					for f, sum := range g.Res.Files {
						if !strings.HasSuffix(f, ".go") {
							continue
						}
						if s2 := fileSum(filepath.Join(p.Out, f)); s2 != sum {
							d++
							r.Note("cli/vgen byte difference in %s %s (non-determinism is C12's business)", g.P.Case.ID, f)
						}
					}
				}
			}
			done <- [2]int{c, d}
		}()
	}
	for _, g := range sample {
		ch <- g
	}
	close(ch)
	for w := 0; w < workers(); w++ {
		x := <-done
		checked += x[0]
		diff += x[1]
	}
	return checked, diff
}

// rerunShorter generates a minimal spec into the output directory of n
// already generated cases (same flags) and applies the per-file monitors
// again: a successful run must leave valid files whatever was there before.
func rerunShorter(r *core.Run, vgen string, outs []*GenOutcome, n int) int {
	small := specgen.NewDoc("small")
	small.Op("/s", "get", nil)
	var cases []specgen.Case
	var dirs []string
	for _, g := range Sample(outs, n*3, r.Seed+21) {
		if g.Status != "ok" || len(cases) >= n {
			continue
		}
		c := g.P.Case
		c.ID += "#rerun-with-shorter-spec"
		c.Spec = small.Root
		c.Raw = nil
		c.Ext = ""
		cases = append(cases, c)
		dirs = append(dirs, g.P.Out)
	}
	if len(cases) == 0 {
		return 0
	}
	root := filepath.Join(r.Scratch, "c01rerun")
	placed, err := core.Place(root, cases)
	if err != nil {
		return 0
	}
	jobs := make([]core.Job, len(placed))
	for i, p := range placed {
		jobs[i] = p.Job()
		jobs[i].Out = dirs[i]
	}
	res := r.RunJobs(vgen, jobs, workers(), 20e9)
	for i, p := range placed {
		rs := res[p.Case.ID]
		if !rs.OK {
			continue
		}
		for f := range rs.Files {
			if !strings.HasSuffix(f, ".go") || strings.HasSuffix(f, "_test.go") {
				continue
			}
			bs, err := os.ReadFile(filepath.Join(dirs[i], f))
			if err != nil {
				continue
			}
			if fb, ferr := format.Source(bs); ferr != nil {
				r.Report(core.Violation{Case: p.Case.ID, Class: "gofmt", Message: f + ": does not parse after regenerating a shorter spec into the same directory: " + stripPos(ferr.Error()), Spec: string(p.Case.SpecBytes()), Flags: p.Case.Flags})
			} else if string(fb) != string(bs) {
				r.Report(core.Violation{Case: p.Case.ID, Class: "gofmt", Message: f + ": not gofmt-stable after regenerating into the same directory", Spec: string(p.Case.SpecBytes()), Flags: p.Case.Flags})
			}
		}
	}
	return len(placed)
}
