package checks

import (
	"strings"

	"verif/core"
	"verif/specgen"
)

func init() {
	Registry["C09"] = func(r *core.Run) int { return clientCheck(r, "C09") }
	Registry["C10"] = func(r *core.Run) int { return clientCheck(r, "C10") }
	Registry["C02"] = C02
}

var clientClasses = map[string][]string{
	"C09": {"request-lost", "request-rejected", "request-differs", "wire-invalid", "panic"},
	"C10": {"response-error", "response-kind", "response-differs", "undocumented-status", "panic"},
}

// clientCheck drives the generated client against the generated server in
// one process (C09: requests, C10: responses and undocumented statuses).
func clientCheck(r *core.Run, prop string) int {
	vgen, err := r.BuildVgen()
	if err != nil {
		r.Inconclusive("%v", err)
		return r.Finish(nil, nil)
	}
	n := 24
	params := map[string]any{"values": 40}
	if r.Thorough() {
		n = 400
		params = map[string]any{"values": 150}
	}
	var cases []specgen.Case
	withClient := func(cs []specgen.Case) {
		for _, c := range cs {
			if !c.Flags.Client {
				continue
			}
			cases = append(cases, c)
		}
	}
	if prop == "C09" {
		withClient(specgen.ParamCases(r.Seed, n))
		withClient(specgen.SchemaCases(r.Seed, n, false))
		rc := specgen.RouterCases(r.Seed, n)
		for i := range rc {
			rc[i].Flags.Client = true
			rc[i].ID += "/client"
		}
		withClient(rc)
	} else {
		withClient(specgen.ResponseCases(r.Seed, n*2))
		withClient(specgen.SchemaCases(r.Seed, n/2, false))
	}
	res, err := RunDriver(r, vgen, "clientmod", cases, DriverOpts{Modes: []string{"client"}, Params: params})
	if err != nil {
		r.Inconclusive("%v", err)
		return r.Finish(nil, nil)
	}
	want := clientClasses[prop]
	s := Summarize(r, res, func(c string) bool {
		for _, w := range want {
			if c == w || strings.HasPrefix(c, w+":") {
				return true
			}
		}
		return false
	})
	evals := s.Stats["client_requests"]
	rule := "one evaluation = one value of an operation's request type sent through the generated client (HTTPClient replaced by a tap that serves the request with the generated API in process); the handler's Parse() result is compared with the sent value and the captured *http.Request is judged by an independent wire validator (path template under the base path, declared parameters only, required present, scalars once, lexical spaces, JSON body against the schema); distinct = (spec, operation) pairs"
	if prop == "C10" {
		evals = s.Stats["client_responses"] + s.Stats["undocumented_statuses"]
		rule = "one evaluation = one response value returned by the handler and reconstructed by the generated client (same kind, status, headers, body), or one undocumented status code served by a stub transport (must arrive as the default response with that code, or as an error when no default is declared); distinct = (spec, operation) pairs"
	}
	if evals < 3000 {
		r.Inconclusive("only %d evaluations (%v)", evals, s.Stats)
	}
	cov := map[string]any{
		"evaluations":                evals,
		"distinct_nontrivial":        len(s.Distinct),
		"rule":                       rule,
		"samples":                    s.Samples,
		"packages_driven":            s.Ran,
		"not_generated":              s.NotGen,
		"not_runnable":               s.NotRunnable,
		"event_counts":               s.Stats,
		"second_opinion_kin_openapi": map[string]any{"agree_valid": s.Stats["second_opinion_agree_valid"], "agree_invalid": s.Stats["second_opinion_agree_invalid"], "only_kin_rejects": s.Stats["second_opinion_only_kin_rejects"], "only_mine_rejects": s.Stats["second_opinion_only_mine_rejects"], "disagreement_samples": s.Notes},
	}
	return r.Finish(cov, []string{"C09 domain (DESIGN §11): path values non-empty and '/'-free, required arrays non-empty, optional arrays unset or non-empty, header values visible ASCII without surrounding blanks, finite floats, years 1-9999, times compared as instants", "the tap hands the client's request object to API.ServeHTTP; the wire validator re-parses the request URI"})
}

// C02: handlers can only return documented responses, written as documented.
func C02(r *core.Run) int {
	vgen, err := r.BuildVgen()
	if err != nil {
		r.Inconclusive("%v", err)
		return r.Finish(nil, nil)
	}
	n := 60
	params := map[string]any{"values": 40}
	if r.Thorough() {
		n = 800
		params = map[string]any{"values": 200}
	}
	cases := specgen.ResponseCases(r.Seed, n)
	cases = append(cases, specgen.SchemaCases(r.Seed, n/4, false)...)
	for _, c := range specgen.ExtraCases() {
		if strings.HasPrefix(c.ID, "X=shared-response-") || strings.Contains(c.ID, "-response-in-one-operation") {
			cases = append(cases, c)
		}
	}
	for _, c := range specgen.UpstreamCases(core.RepoDir()) {
		c.Safe = false
		cases = append(cases, c)
	}
	res, err := RunDriver(r, vgen, "respmod", cases, DriverOpts{Modes: []string{"resp"}, Params: params})
	if err != nil {
		r.Inconclusive("%v", err)
		return r.Finish(nil, nil)
	}
	s := Summarize(r, res, nil)
	if s.Stats["responses_written"] < 5000 || s.Stats["operations"] < 100 {
		r.Inconclusive("too few observations: %v", s.Stats)
	}
	cov := map[string]any{
		"evaluations":         s.Stats["responses_written"],
		"distinct_nontrivial": len(s.Distinct),
		"rule":                "per operation the run-time set of package types assignable to its response interface (reflect.Type.Implements over EVERY named type of the package, exported or not) must map one-to-one onto the documented responses; one evaluation = one random value of one implementer returned from the installed handler and captured by a recording ResponseWriter (status / caller's code for default, Content-Type, declared headers parsed back by type, no undeclared header, body validated against the schema or byte-equal for raw bodies, written once, public Write agrees); distinct = (spec, operation) pairs",
		"samples":             s.Samples,
		"packages_driven":     s.Ran,
		"not_generated":       s.NotGen,
		"not_runnable":        s.NotRunnable,
		"event_counts":        s.Stats,
	}
	return r.Finish(cov, []string{"generic types are not in the registry (DESIGN §4 C02 limit)", "header values restricted to visible ASCII"})
}
