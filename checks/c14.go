package checks

import (
	"os"
	"path/filepath"
	"regexp"
	"strconv"
	"strings"
	"time"

	"verif/core"
	"verif/specgen"
)

func init() { Registry["C14"] = C14 }

// C14: the generated server never panics and always answers.
func C14(r *core.Run) int {
	vgen, err := r.BuildVgen()
	if err != nil {
		r.Inconclusive("%v", err)
		return r.Finish(nil, nil)
	}
	n := 12
	params := map[string]any{"requests": 200}
	if r.Thorough() {
		n = 150
		params = map[string]any{"requests": 1500}
	}
	var cases []specgen.Case
	cases = append(cases, specgen.KitchenSinks()...)
	cases = append(cases, specgen.ParamCases(r.Seed, n)...)
	cases = append(cases, specgen.SchemaCases(r.Seed, n, false)...)
	cases = append(cases, specgen.RouterCases(r.Seed, n)...)
	cases = append(cases, specgen.ResponseCases(r.Seed, n)...)
	for i, c := range specgen.SecurityCases(r.Seed, false) {
		if c.Safe && i%4 == 0 {
			cases = append(cases, c)
		}
	}
	cases = append(cases, specgen.CorsCases(r.Seed, n)...)
	for _, c := range specgen.UpstreamCases(core.RepoDir()) {
		c.Safe = false
		cases = append(cases, c)
	}
	res, err := RunDriver(r, vgen, "fuzzmod", cases, DriverOpts{Modes: []string{"fuzz"}, Params: params})
	if err != nil {
		r.Inconclusive("%v", err)
		return r.Finish(nil, nil)
	}
	s := Summarize(r, res, nil)
	fuzzExecs, fuzzPkgs := 0, 0
	if r.Thorough() {
		fuzzExecs, fuzzPkgs = nativeFuzz(r, res, 6, "300000x")
	} else if os.Getenv("VERIF_C14_FUZZ") != "" {
		fuzzExecs, fuzzPkgs = nativeFuzz(r, res, 2, "20000x")
	}
	if s.Stats["requests"] < 100000 {
		r.Inconclusive("only %d requests", s.Stats["requests"])
	}
	var samples []any
	for _, dr := range res {
		if dr.Ran && len(samples) < 3 {
			samples = append(samples, map[string]any{"case": dr.G.P.Case.ID, "counts": dr.Stats})
		}
	}
	cov := map[string]any{
		"evaluations":          s.Stats["requests"],
		"distinct_nontrivial":  len(s.Distinct),
		"rule":                 "one evaluation = one hostile request (any method string, truncated / doubled-slash / near-miss / huge / non-UTF-8 paths, garbage and huge query strings, header multimaps incl. every Authorization shape, bodies: empty, truncated, deeply nested, 1 MiB, invalid UTF-8, failing reader) served by a fully populated generated API whose handlers call Parse(), drain raw bodies and return a random documented response; authenticators all nil / all installed / mixed; monitors: recover() around ServeHTTP and around Parse(), counting ResponseWriter (exactly one response); distinct = (spec, operation) pairs attacked",
		"samples":              samples,
		"packages_driven":      s.Ran,
		"not_generated":        s.NotGen,
		"not_runnable":         s.NotRunnable,
		"event_counts":         s.Stats,
		"native_fuzz_packages": fuzzPkgs,
		"native_fuzz_execs":    fuzzExecs,
	}
	return r.Finish(cov, []string{"requests obey the net/http server contract (Body non-nil)", "every handler field set; authenticators may be nil"})
}

var fuzzExecRe = regexp.MustCompile(`execs: (\d+)`)

// nativeFuzz runs Go's coverage-guided fuzzer (FuzzVerif in every driven
// package) on the first n runnable packages, bounded by execution count.
func nativeFuzz(r *core.Run, res []*DriverResult, n int, fuzztime string) (int, int) {
	execs, pkgs := 0, 0
	for _, dr := range res {
		if !dr.Ran || pkgs >= n {
			continue
		}
		pkgs++
		root := filepath.Dir(filepath.Dir(dr.G.P.Out))
		out, err := core.RunCmd(root, 30*time.Minute, nil, "go", "test", "-vet=off", "-run", "^$", "-fuzz", "^FuzzVerif$", "-fuzztime", fuzztime, "./g/"+filepath.Base(dr.G.P.Out))
		last := 0
		for _, m := range fuzzExecRe.FindAllStringSubmatch(out, -1) {
			last, _ = strconv.Atoi(m[1])
		}
		execs += last
		if err != nil {
			msg := "native fuzzing failed"
			for _, l := range strings.Split(out, "\n") {
				if i := strings.Index(l, "VERIF-VIOLATION"); i >= 0 {
					msg = strings.TrimSpace(l[i+len("VERIF-VIOLATION"):])
					break
				}
			}
			input := ""
			if fs, _ := filepath.Glob(filepath.Join(dr.G.P.Out, "testdata", "fuzz", "FuzzVerif", "*")); len(fs) > 0 {
				if bs, e := os.ReadFile(fs[0]); e == nil {
					input = string(bs)
				}
			}
			if strings.Contains(out, "VERIF-VIOLATION") {
				r.Report(core.Violation{Case: dr.G.P.Case.ID, Class: "panic", Message: "native fuzzing: " + core.Trunc(msg, 200), Input: input, Observed: core.Trunc(out, 3000), Spec: string(dr.G.P.Case.SpecBytes())})
			} else {
				r.Note("native fuzzing of %s did not complete: %s", dr.G.P.Case.ID, core.Trunc(out, 300))
			}
		}
	}
	return execs, pkgs
}
