package checks

import (
	"verif/core"
	"verif/specgen"
)

func init() { Registry["C14"] = C14 }

// C14: the generated server never panics and always answers.
func C14(r *core.Run) int {
	vgen, err := r.BuildVgen()
	if err != nil {
		r.Inconclusive("%v", err)
		return r.Finish(nil, nil)
	}
	n := 12
	params := map[string]any{"requests": 200}
	if r.Thorough() {
		n = 150
		params = map[string]any{"requests": 1500}
	}
	var cases []specgen.Case
	cases = append(cases, specgen.KitchenSinks()...)
	cases = append(cases, specgen.ParamCases(r.Seed, n)...)
	cases = append(cases, specgen.SchemaCases(r.Seed, n, false)...)
	cases = append(cases, specgen.RouterCases(r.Seed, n)...)
	cases = append(cases, specgen.ResponseCases(r.Seed, n)...)
	for i, c := range specgen.SecurityCases(r.Seed, false) {
		if c.Safe && i%4 == 0 {
			cases = append(cases, c)
		}
	}
	cases = append(cases, specgen.CorsCases(r.Seed, n)...)
	for _, c := range specgen.UpstreamCases(core.RepoDir()) {
		c.Safe = false
		cases = append(cases, c)
	}
	res, err := RunDriver(r, vgen, "fuzzmod", cases, DriverOpts{Modes: []string{"fuzz"}, Params: params})
	if err != nil {
		r.Inconclusive("%v", err)
		return r.Finish(nil, nil)
	}
	s := Summarize(r, res, nil)
	if s.Stats["requests"] < 100000 {
		r.Inconclusive("only %d requests", s.Stats["requests"])
	}
	var samples []any
	for _, dr := range res {
		if dr.Ran && len(samples) < 3 {
			samples = append(samples, map[string]any{"case": dr.G.P.Case.ID, "counts": dr.Stats})
		}
	}
	cov := map[string]any{
		"evaluations":         s.Stats["requests"],
		"distinct_nontrivial": len(s.Distinct),
		"rule":                "one evaluation = one hostile request (any method string, truncated / doubled-slash / near-miss / huge / non-UTF-8 paths, garbage and huge query strings, header multimaps incl. every Authorization shape, bodies: empty, truncated, deeply nested, 1 MiB, invalid UTF-8, failing reader) served by a fully populated generated API whose handlers call Parse(), drain raw bodies and return a random documented response; authenticators all nil / all installed / mixed; monitors: recover() around ServeHTTP and around Parse(), counting ResponseWriter (exactly one response); distinct = (spec, operation) pairs attacked",
		"samples":             samples,
		"packages_driven":     s.Ran,
		"not_generated":       s.NotGen,
		"not_runnable":        s.NotRunnable,
		"event_counts":        s.Stats,
	}
	return r.Finish(cov, []string{"requests obey the net/http server contract (Body non-nil)", "every handler field set; authenticators may be nil"})
}
