package checks

import (
	"verif/core"
	"verif/specgen"
)

func init() { Registry["C17"] = C17 }

// C17: CORS preflight advertises exactly what the path declares.
func C17(r *core.Run) int {
	vgen, err := r.BuildVgen()
	if err != nil {
		r.Inconclusive("%v", err)
		return r.Finish(nil, nil)
	}
	n := 80
	if r.Thorough() {
		n = 1200
	}
	cases := specgen.CorsCases(r.Seed, n)
	// router and security families with CORS switched on
	extra := specgen.RouterCases(r.Seed, n/4)
	for i := range extra {
		extra[i].Flags.Cors = i%5 != 0
		extra[i].ID += "/cors"
	}
	cases = append(cases, extra...)
	for i, c := range specgen.SecurityCases(r.Seed, false) {
		if !c.Safe || i%3 != 0 {
			continue
		}
		c.Flags.Cors = true
		c.ID += "/cors"
		cases = append(cases, c)
	}
	res, err := RunDriver(r, vgen, "corsmod", cases, DriverOpts{Modes: []string{"cors"}})
	if err != nil {
		r.Inconclusive("%v", err)
		return r.Finish(nil, nil)
	}
	s := Summarize(r, res, nil)
	if s.Stats["cors_answers"] < 150 {
		r.Inconclusive("only %d preflights answered by the CORS handler", s.Stats["cors_answers"])
	}
	cov := map[string]any{
		"evaluations":         s.Stats["preflights"],
		"distinct_nontrivial": len(s.Distinct),
		"rule":                "one evaluation = one OPTIONS request to a concrete path of one declared template under {cors enabled/disabled} x {CORS handler installed/nil}; the arguments received by the recorder CORSHandler are compared as sets with the reference (declared methods; canonicalised de-duplicated header parameters of all operations incl. path-item level + Authorization for bearer + header apiKey names of every operation's effective requirement); distinct = (spec, template, cors, handler) tuples",
		"samples":             s.Samples,
		"packages_driven":     s.Ran,
		"not_generated":       s.NotGen,
		"not_runnable":        s.NotRunnable,
		"event_counts":        s.Stats,
	}
	return r.Finish(cov, []string{"alternatives naming several schemes (recorded C11 finding) make the header set ambiguous: counted, not judged"})
}
