package checks

import (
	"verif/core"
	"verif/specgen"
)

func init() { Registry["C04"] = C04 }

// C04: parameter parsing rejects exactly the malformed requests.
func C04(r *core.Run) int {
	vgen, err := r.BuildVgen()
	if err != nil {
		r.Inconclusive("%v", err)
		return r.Finish(nil, nil)
	}
	n := 30
	if r.Thorough() {
		n = 500
	}
	cases := specgen.ParamCases(r.Seed, n)
	res, err := RunDriver(r, vgen, "parammod", cases, DriverOpts{Modes: []string{"params"}})
	if err != nil {
		r.Inconclusive("%v", err)
		return r.Finish(nil, nil)
	}
	s := Summarize(r, res, nil)
	if s.Stats["requests"] < 20000 || s.Stats["expect_reject"] < 2000 || s.Stats["expect_accept"] < 2000 {
		r.Inconclusive("too few observations: %v", s.Stats)
	}
	var samples []any
	for _, dr := range res {
		if dr.Ran && len(samples) < 3 {
			samples = append(samples, map[string]any{"case": dr.G.P.Case.ID, "counts": dr.Stats})
		}
	}
	cov := map[string]any{
		"evaluations":         s.Stats["requests"],
		"distinct_nontrivial": len(s.Distinct),
		"rule":                "one evaluation = one request whose Parse() outcome was compared with the reference parser (per parameter: absent / one / many x lexeme class accept / reject / don't-care of its declared type; all other parameters canonical; plus all-absent, only-this-parameter and seeded multi-fault requests); distinct = (spec, operation) pairs and (type kind, lexeme class, location) triples observed",
		"samples":             samples,
		"packages_driven":     s.Ran,
		"not_generated":       s.NotGen,
		"not_runnable":        s.NotRunnable,
		"event_counts":        s.Stats,
	}
	return r.Finish(cov, []string{"lexeme tables drv/lexemes.go: verdicts only on must-accept / must-reject texts; Go-liberal forms are observed, never judged", "errors must contain the quoted parameter name and its location word"})
}
