// Package checks holds one check per property.
package checks

import (
	"crypto/sha256"
	"encoding/hex"
	"fmt"
	"go/format"
	"math/rand"
	"os"
	"path/filepath"
	"regexp"
	"runtime"
	"sort"
	"strings"
	"time"

	"verif/core"
	"verif/specgen"
)

type Check func(r *core.Run) int

var Registry = map[string]Check{}

func workers() int {
	n := runtime.NumCPU()
	if n > 16 {
		n = 16
	}
	return n
}

// GenOutcome is the stage-G verdict for one case.
type GenOutcome struct {
	P      core.Placed
	Res    core.Result
	Status string // ok | refused | panic | fatal | loader | format-error | gofmt | build
	Msgs   []string
}

var fmtLogRe = regexp.MustCompile(`Error on format go source \(([^)]*)\): (.*)`)

// Generate places the cases beneath root, runs vgen on all of them and
// applies the per-file output monitors (format-error log line, gofmt
// idempotence). Build is a separate step (BuildAll).
func Generate(r *core.Run, vgen, root string, cases []specgen.Case) ([]*GenOutcome, error) {
	placed, err := core.Place(root, cases)
	if err != nil {
		return nil, err
	}
	jobs := make([]core.Job, len(placed))
	for i, p := range placed {
		jobs[i] = p.Job()
	}
	results := r.RunJobs(vgen, jobs, workers(), 20*time.Second)
	out := make([]*GenOutcome, len(placed))
	for i, p := range placed {
		res, ok := results[p.Case.ID]
		g := &GenOutcome{P: p, Res: res}
		out[i] = g
		switch {
		case !ok:
			g.Status = "fatal"
			g.Msgs = []string{"no result from vgen"}
		case res.Fatal != "":
			g.Status = "fatal"
			g.Msgs = []string{res.Fatal}
		case res.LoadPanic != "":
			g.Status = "loader"
			g.Msgs = []string{"loader panic: " + res.LoadPanic}
		case res.Panic != "":
			g.Status = "panic"
			g.Msgs = []string{res.Panic}
		case !res.OK:
			if res.LoadErr != "" {
				g.Status = "loader"
			} else {
				g.Status = "refused"
			}
			g.Msgs = []string{res.Err}
		default:
			g.Status = "ok"
			if m := fmtLogRe.FindAllStringSubmatch(res.Log, -1); len(m) > 0 {
				g.Status = "format-error"
				for _, mm := range m {
					g.Msgs = append(g.Msgs, filepath.Base(mm[1])+": "+stripPos(mm[2]))
				}
			} else {
				for _, f := range core.SortedKeys(res.Files) {
					if !strings.HasSuffix(f, ".go") {
						continue
					}
					bs, err := os.ReadFile(filepath.Join(p.Out, f))
					if err != nil {
						continue
					}
					fb, ferr := format.Source(bs)
					if ferr != nil {
						g.Status = "gofmt"
						g.Msgs = append(g.Msgs, f+": does not parse: "+stripPos(ferr.Error()))
					} else if string(fb) != string(bs) {
						g.Status = "gofmt"
						g.Msgs = append(g.Msgs, f+": not gofmt-stable: "+firstDiff(string(bs), string(fb)))
					}
				}
			}
		}
	}
	return out, nil
}

var lineColRe = regexp.MustCompile(`\b\d+:\d+:\s*`)

func stripPos(s string) string { return strings.TrimSpace(lineColRe.ReplaceAllString(s, "")) }

func firstDiff(a, b string) string {
	al, bl := strings.Split(a, "\n"), strings.Split(b, "\n")
	for i := 0; i < len(al) && i < len(bl); i++ {
		if al[i] != bl[i] {
			return fmt.Sprintf("line %d: %q vs gofmt %q", i+1, core.Trunc(al[i], 80), core.Trunc(bl[i], 80))
		}
	}
	return fmt.Sprintf("length %d vs %d lines", len(al), len(bl))
}

var loadErrRe = regexp.MustCompile(`(?:^|/)g/(c\d{5})/`)

var buildPosRe = regexp.MustCompile(`^(?:[^\s:]*/)?([A-Za-z0-9_]+\.go):\d+:\d+: `)

// BuildAll compiles every "ok" outcome as packages of one module under root
// (go.mod written here; withDrv=false means no requirement at all, so any
// import outside the standard library fails). Outcomes that do not build
// get Status "build" with normalised compiler messages.
func BuildAll(r *core.Run, root, modname string, outs []*GenOutcome, withDrv bool) error {
	if err := core.WriteModule(root, modname, withDrv); err != nil {
		return err
	}
	byPkg := map[string]*GenOutcome{}
	byDir := map[string]*GenOutcome{}
	for _, g := range outs {
		byPkg[modname+"/g/"+filepath.Base(g.P.Out)] = g
		byDir[filepath.Base(g.P.Out)] = g
	}
	var out string
	var errs map[string][]string
	for attempt := 0; attempt < 6; attempt++ {
		out, _ = core.RunCmd(root, 30*time.Minute, nil, "go", "build", "-gcflags=-e", "./g/...")
		errs = core.ParseBuildErrors(out)
		// package-loading errors (no "# pkg" header) abort the whole build:
		// attribute them by directory, set the package aside and retry
		moved := false
		for _, line := range strings.Split(out, "\n") {
			if strings.HasPrefix(line, "# ") || strings.HasPrefix(line, "\t") {
				continue
			}
			m := loadErrRe.FindStringSubmatch(line)
			if m == nil {
				continue
			}
			g := byDir[m[1]]
			if g == nil || g.Status != "ok" {
				continue
			}
			if _, isCompile := errs[modname+"/g/"+m[1]]; isCompile {
				continue
			}
			g.Status = "build"
			g.Msgs = append(g.Msgs, buildPosRe.ReplaceAllString(strings.TrimSpace(line), "$1: "))
			_ = os.MkdirAll(filepath.Join(root, "setaside"), 0o755)
			_ = os.Rename(g.P.Out, filepath.Join(root, "setaside", m[1]))
			moved = true
		}
		if !moved {
			break
		}
	}
	for pkg, lines := range errs {
		g := byPkg[pkg]
		if g == nil {
			r.Note("build output for unknown package %s: %s", pkg, core.Trunc(strings.Join(lines, " | "), 300))
			continue
		}
		if g.Status != "ok" {
			continue
		}
		g.Status = "build"
		for _, l := range lines {
			if strings.Contains(l, "too many errors") {
				continue
			}
			g.Msgs = append(g.Msgs, buildPosRe.ReplaceAllString(strings.TrimSpace(l), "$1: "))
		}
	}
	// anything else in the output that is not attributed is noted
	if strings.Contains(out, "go: ") && len(errs) == 0 && strings.TrimSpace(out) != "" {
		r.Note("go build said: %s", core.Trunc(out, 500))
	}
	return nil
}

// AssignFlags gives every case a configuration. Thorough: all
// combinations are spread round-robin with a seeded offset so that each
// value meets each family many times; the assignment depends only on the
// seed and the case index.
func AssignFlags(cases []specgen.Case, seed int64, allowBase bool) {
	rng := rand.New(rand.NewSource(seed*7919 + 17))
	bases := []string{"", "", "/v1", "/api/v2"}
	for i := range cases {
		if cases[i].Flags != (specgen.Flags{}) {
			continue
		}
		k := rng.Intn(1 << 16)
		f := specgen.Flags{Client: k&1 != 0, DoNotEdit: k&2 != 0, Cors: k&4 != 0}
		if allowBase {
			f.BasePath = bases[(k>>3)%len(bases)]
		}
		cases[i].Flags = f
	}
}

// Sample picks n cases by seed, keeping the original order.
func Sample[T any](xs []T, n int, seed int64) []T {
	if n >= len(xs) {
		return xs
	}
	rng := rand.New(rand.NewSource(seed))
	idx := rng.Perm(len(xs))[:n]
	sort.Ints(idx)
	out := make([]T, 0, n)
	for _, i := range idx {
		out = append(out, xs[i])
	}
	return out
}

func countBy[T any](xs []T, key func(T) string) map[string]int {
	m := map[string]int{}
	for _, x := range xs {
		m[key(x)]++
	}
	return m
}

func fileSum(path string) string {
	bs, err := os.ReadFile(path)
	if err != nil {
		return ""
	}
	h := sha256.Sum256(bs)
	return hex.EncodeToString(h[:])
}
