package checks

import (
	"verif/core"
	"verif/specgen"
)

func init() {
	Registry["C03"] = func(r *core.Run) int { return routeCheck(r, "C03") }
	Registry["C05"] = func(r *core.Run) int { return routeCheck(r, "C05") }
	Registry["C16"] = func(r *core.Run) int { return routeCheck(r, "C16") }
}

var routeClasses = map[string]map[string]bool{
	"C03": {"misdispatch": true, "notfound-trace": true, "schema-path": true, "spec-route": true, "panic": true},
	"C05": {"path-param-accepted": true, "path-param-error-unnamed": true, "path-param-rejected": true, "path-param-value": true},
	"C16": {"trace-shape": true, "cors-bypass": true, "spec-route": true, "notfound-trace": true, "schema-path": true, "status-401": true},
}

// routeCheck runs the router family through the driver's "route" mode; the
// same observations decide C03 (dispatch), C05 (path parameters) and C16
// (middleware trace), each check keeping its own violation classes.
func routeCheck(r *core.Run, prop string) int {
	vgen, err := r.BuildVgen()
	if err != nil {
		r.Inconclusive("%v", err)
		return r.Finish(nil, nil)
	}
	n := 45
	if r.Thorough() {
		n = 900
	}
	cases := specgen.RouterCases(r.Seed, n)
	if r.Thorough() {
		// exhaustive: every set of <= 3 templates of depth <= 2 over the segment alphabet
		cases = append(cases, specgen.RouterExhaustive(3)...)
	} else {
		cases = append(cases, specgen.RouterExhaustive(2)...)
	}
	mwFor := func(c specgen.Case) map[string]any {
		// middleware stack length 0..4 by case
		h := 0
		for _, ch := range c.ID {
			h = h*31 + int(ch)
		}
		if h < 0 {
			h = -h
		}
		k := h % 5
		if prop != "C16" && k == 0 {
			k = 1
		}
		return map[string]any{"middlewares": k}
	}
	res, err := RunDriver(r, vgen, "routemod", cases, DriverOpts{Modes: []string{"route"}, PerCase: mwFor})
	if err != nil {
		r.Inconclusive("%v", err)
		return r.Finish(nil, nil)
	}
	cls := routeClasses[prop]
	s := Summarize(r, res, func(c string) bool { return cls[c] })
	if s.Stats["requests"] < 10000 {
		r.Inconclusive("only %d requests served", s.Stats["requests"])
	}
	if s.Stats["dispatched"] < 5000 || s.Stats["notfound"] < 5000 {
		r.Inconclusive("unbalanced workload: %d dispatched, %d not found of %d", s.Stats["dispatched"], s.Stats["notfound"], s.Stats["requests"])
	}
	if prop == "C05" && s.Stats["path_param_checks"] < 1000 {
		r.Inconclusive("only %d path-parameter observations", s.Stats["path_param_checks"])
	}
	rule := map[string]string{
		"C03": "one evaluation = one request served by the generated API and compared with the reference matcher (dispatch target / not-found, SchemaPath); distinct = (template set, base form, operation) triples that were dispatched to at least once",
		"C05": "one evaluation = one dispatched request whose Parse() result was compared with the typed value of the segment at each variable's template position (lexeme classes accept / reject / don't-care); distinct = dispatched (template set, base form, operation) triples",
		"C16": "one evaluation = one request whose recorded enter/auth/op/leave trace was checked against the trace specification (routed: enter 0..k-1 auth* op leave k-1..0; unrouted, spec-file and CORS preflight: no middleware event); distinct = dispatched (template set, base form, operation) triples over stacks of length 0-4",
	}[prop]
	cov := map[string]any{
		"evaluations":         s.Stats["requests"],
		"distinct_nontrivial": len(s.Distinct),
		"rule":                rule,
		"samples":             routeSamples(res),
		"packages_driven":     s.Ran,
		"not_generated":       s.NotGen,
		"not_runnable":        s.NotRunnable,
		"event_counts":        s.Stats,
		"exhaustive_part":     "all sets of <= 2 (quick) / <= 3 (thorough) non-equivalent templates of depth <= 2 over {a, b, {var}, empty-last}",
	}
	return r.Finish(cov, []string{"requests are what net/http hands to a handler (URL.Path decoded); request paths of depth <= 5 over {a,b,zz,7,empty} beneath every base form, plus near misses and typed lexemes", "reference matcher drv/refroute.go written from the property text"})
}

func routeSamples(res []*DriverResult) []any {
	var out []any
	for _, dr := range res {
		if dr.Ran && len(out) < 3 {
			out = append(out, map[string]any{"case": dr.G.P.Case.ID, "templates": dr.G.P.Case.Label["set"], "base": dr.G.P.Case.Label["base"], "counts": dr.Stats})
		}
	}
	return out
}
