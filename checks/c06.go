package checks

import (
	"strings"

	"verif/core"
	"verif/specgen"
)

func init() {
	Registry["C06"] = func(r *core.Run) int { return jsonCheck(r, "C06") }
	Registry["C07"] = func(r *core.Run) int { return jsonCheck(r, "C07") }
	Registry["C08"] = func(r *core.Run) int { return jsonCheck(r, "C08") }
}

var jsonClasses = map[string][]string{
	"C06": {"marshal-error", "invalid-json", "roundtrip-decode-error", "roundtrip-differs", "output-aliased", "input-mutated", "driver-panic"},
	"C07": {"schema-nonconformant", "invalid-json", "marshal-error", "output-aliased", "map-entry-missing"},
	"C08": {"valid-doc-rejected", "reencode-error", "reencode-differs", "fault-accepted", "fault-error-unnamed", "valid-body-rejected", "panic"},
}

// jsonCheck drives the schema family through the driver's "json" mode:
// C06 (encode -> decode round trip), C07 (bytes validate against the schema)
// and C08 (documents generated from the schema decode losslessly, single
// faults are rejected with the property named) share the executions.
func jsonCheck(r *core.Run, prop string) int {
	vgen, err := r.BuildVgen()
	if err != nil {
		r.Inconclusive("%v", err)
		return r.Finish(nil, nil)
	}
	n := 60
	params := map[string]any{"values": 120, "docs": 48}
	if r.Thorough() {
		n = 1200
		params = map[string]any{"values": 400, "docs": 200}
	}
	cases := specgen.SchemaCases(r.Seed, n, true)
	for _, c := range specgen.SchemaFixedCases() {
		if !strings.Contains(c.ID, "-addl-") { // those are in SchemaCases already
			cases = append(cases, c)
		}
	}
	res, err := RunDriver(r, vgen, "jsonmod", cases, DriverOpts{Modes: []string{"json"}, Params: params})
	if err != nil {
		r.Inconclusive("%v", err)
		return r.Finish(nil, nil)
	}
	want := jsonClasses[prop]
	s := Summarize(r, res, func(c string) bool {
		for _, w := range want {
			if c == w || strings.HasPrefix(c, w+":") {
				return true
			}
		}
		return false
	})
	evals := s.Stats["values"]
	if prop == "C08" {
		evals = s.Stats["documents"] + s.Stats["fault_documents"] + s.Stats["body_documents"] + s.Stats["body_fault_documents"]
		if s.Stats["fault:drop-required"] < 200 || s.Stats["fault:wrong-type"] < 200 {
			r.Inconclusive("too few fault documents: %v", s.Stats)
		}
	}
	if evals < 5000 {
		r.Inconclusive("only %d evaluations", evals)
	}
	rule := map[string]string{
		"C06": "one evaluation = one random/boundary value of a schema-derived Go type (reflection value generator guided by the spec schema) encoded with json.Marshal, checked with json.Valid, decoded and compared (unset stays unset, null stays null, maps entry-wise, embedded allOf members, the same oneOf arm); distinct = (spec, Go type) pairs driven",
		"C07": "one evaluation = the bytes encoded for one value, validated by the purpose-built schema checker (type/format/required/nullable/additionalProperties/items/allOf/oneOf+discriminator/$ref; duplicate keys; undeclared property names); distinct = (spec, Go type) pairs driven",
		"C08": "one evaluation = one JSON document generated FROM the schema by an independent generator (optional subsets, null where nullable, extra keys where additionalProperties is declared, shuffled key order, whitespace styles) decoded and re-encoded, or one single-fault mutant (one required key dropped / one declared property given a non-null value of another JSON type, at every depth), also sent as request body through the generated server; distinct = (spec, Go type) pairs driven",
	}[prop]
	cov := map[string]any{
		"evaluations":                evals,
		"distinct_nontrivial":        len(s.Distinct),
		"rule":                       rule,
		"samples":                    s.Samples,
		"packages_driven":            s.Ran,
		"not_generated":              s.NotGen,
		"not_runnable":               s.NotRunnable,
		"event_counts":               s.Stats,
		"second_opinion_kin_openapi": map[string]any{"agree_valid": s.Stats["second_opinion_agree_valid"], "agree_invalid": s.Stats["second_opinion_agree_invalid"], "only_kin_rejects": s.Stats["second_opinion_only_kin_rejects"], "only_mine_rejects": s.Stats["second_opinion_only_mine_rejects"], "disagreement_samples": s.Notes},
	}
	return r.Finish(cov, []string{"domain: valid UTF-8 strings, finite floats, RawMessage holding valid JSON, oneOf with exactly one arm whose discriminator names it, additional keys disjoint from declared ones", "matrix cells that goag refuses or that do not compile (C01 known findings) are counted, not judged here"})
}
