package checks

import (
	"bufio"
	"encoding/json"
	"fmt"
	"os"
	"path/filepath"
	"strings"
	"time"

	"verif/core"
	"verif/specgen"
)

// DriverResult is what one per-package driver run reported.
type DriverResult struct {
	G       *GenOutcome
	Ran     bool // END event seen
	Fatal   string
	Viols   []DrvViol
	Stats   map[string]int
	VCounts map[string]int
	Samples []any
	Notes   []string
	Output  string // go test output for the package when it did not finish
}

type DrvViol struct {
	Mode     string `json:"mode"`
	Class    string `json:"class"`
	Msg      string `json:"msg"`
	Input    any    `json:"input"`
	Expected any    `json:"expected"`
	Observed any    `json:"observed"`
}

type DriverOpts struct {
	Modes   []string
	Params  map[string]any
	Race    bool
	Timeout time.Duration
	Env     []string
	// PerCase lets a check set parameters per case.
	PerCase func(c specgen.Case) map[string]any
}

// RunDriver generates the cases with the real generator, adds the registry
// file and case description to every package that goag wrote, compiles each
// package together with the reflective driver as its own test binary and
// runs them (16 at a time). It returns one result per case.
func RunDriver(r *core.Run, vgen string, name string, cases []specgen.Case, opts DriverOpts) ([]*DriverResult, error) {
	root := filepath.Join(r.Scratch, name)
	outs, err := Generate(r, vgen, root, cases)
	if err != nil {
		return nil, err
	}
	if err := core.WriteModule(root, name, true); err != nil {
		return nil, err
	}
	res := make([]*DriverResult, len(outs))
	for i, g := range outs {
		res[i] = &DriverResult{G: g}
		if g.Status != "ok" {
			// a package goag did not write cleanly is not driven; set it aside so that it does not break the build
			_ = os.MkdirAll(filepath.Join(root, "setaside"), 0o755)
			_ = os.Rename(g.P.Out, filepath.Join(root, "setaside", filepath.Base(g.P.Out)))
			continue
		}
		if err := core.WriteRegistry(g.P.Out, g.P.Pkg); err != nil {
			res[i].Fatal = "registry: " + err.Error()
			continue
		}
		c := g.P.Case
		params := map[string]any{}
		for k, v := range opts.Params {
			params[k] = v
		}
		if opts.PerCase != nil {
			for k, v := range opts.PerCase(c) {
				params[k] = v
			}
		}
		ext := c.Ext
		if ext == "" {
			ext = ".json"
		}
		sn := c.Flags.SpecName
		if sn == "" {
			sn = "openapi.yaml"
		}
		dc := core.DriverCase{ID: c.ID, Modes: opts.Modes, Seed: r.Seed, Tier: r.Tier, SpecFile: g.P.Spec, SpecExt: ext,
			BasePath: c.Flags.BasePath, Client: c.Flags.Client, Cors: c.Flags.Cors, SpecName: sn, Params: params, Aux: c.Aux}
		if err := core.WriteDriverCase(g.P.Out, dc); err != nil {
			res[i].Fatal = err.Error()
		}
	}
	timeout := opts.Timeout
	if timeout == 0 {
		timeout = 20 * time.Minute
	}
	args := []string{"test", "-vet=off", "-count=1", "-run", "^TestVerif$", "-timeout", fmt.Sprintf("%ds", int(timeout.Seconds())), "-p", fmt.Sprint(workers())}
	if opts.Race {
		args = append(args, "-race")
	}
	args = append(args, "./g/...")
	out, _ := core.RunCmd(root, timeout+5*time.Minute, opts.Env, "go", args...)
	// per-package output sections
	sections := splitTestOutput(out, name)
	for _, dr := range res {
		if dr.G.Status != "ok" || dr.Fatal != "" {
			continue
		}
		pkg := name + "/g/" + filepath.Base(dr.G.P.Out)
		dr.Output = sections[pkg]
		readDriverLog(dr, filepath.Join(dr.G.P.Out, "verif_out.jsonl"))
		if !dr.Ran && runtimeInternalCrash(dr.Output) {
			// The Go runtime itself gave up (allocator / scheduler invariant), which
			// no Go code without unsafe can cause by itself and which was observed
			// on this VM under heavy load (DESIGN §13.3). Run the package again:
			// only a crash that comes back is reported.
			first, _ := crashExcerpt(dr.Output)
			rargs := append(append([]string{}, args[:len(args)-1]...), "./g/"+filepath.Base(dr.G.P.Out))
			_ = os.Remove(filepath.Join(dr.G.P.Out, "verif_out.jsonl"))
			out2, _ := core.RunCmd(root, timeout+5*time.Minute, opts.Env, "go", rargs...)
			dr.Output = out2
			dr.Viols, dr.Samples, dr.Stats, dr.Fatal = nil, nil, nil, ""
			readDriverLog(dr, filepath.Join(dr.G.P.Out, "verif_out.jsonl"))
			r.Note("package %s (%s): test binary died with a runtime-internal fault (%s); second run %s", filepath.Base(dr.G.P.Out), dr.G.P.Case.ID, first, map[bool]string{true: "completed", false: "died again"}[dr.Ran])
			if dr.Ran {
				if dr.Stats == nil {
					dr.Stats = map[string]int{}
				}
				dr.Stats["runtime_internal_crash_then_clean_rerun"]++
			}
		}
	}
	return res, nil
}

// runtimeInternalCrash tells a fault of the Go runtime's own bookkeeping from
// the fatal errors that Go code can cause (those stay violations at once).
func runtimeInternalCrash(out string) bool {
	h, _ := crashExcerpt(out)
	if !strings.HasPrefix(h, "fatal error:") && !strings.HasPrefix(h, "runtime: ") {
		return false
	}
	for _, user := range []string{"concurrent map", "stack overflow", "all goroutines are asleep", "out of memory", "unlock of unlocked", "sync:", "checkptr", "cannot allocate memory", "newstack", "goroutine stack exceeds"} {
		if strings.Contains(out[:min(len(out), 4000)], user) {
			return false
		}
	}
	return true
}

func splitTestOutput(out, mod string) map[string]string {
	// build errors: "# pkg [pkg.test]" sections; run failures: everything
	// printed before the package's "FAIL\tpkg" / "ok  \tpkg" line
	res := map[string]string{}
	for pkg, lines := range core.ParseBuildErrors(out) {
		res[pkg] = strings.Join(lines, "\n") + "\n"
	}
	var cur []string
	inBuild := false
	for _, line := range strings.Split(out, "\n") {
		f := strings.Fields(line)
		switch {
		case strings.HasPrefix(line, "# "):
			inBuild = true
			cur = nil
		case len(f) >= 2 && (f[0] == "ok" || f[0] == "FAIL") && strings.HasPrefix(f[1], mod+"/"):
			if !strings.Contains(line, "[build failed]") && len(cur) > 0 {
				res[f[1]] += strings.Join(cur, "\n") + "\n"
			}
			cur = nil
			inBuild = false
		case len(f) == 1 && (f[0] == "FAIL" || f[0] == "PASS"):
		default:
			if !inBuild {
				cur = append(cur, line)
			}
		}
	}
	return res
}

func readDriverLog(dr *DriverResult, path string) {
	f, err := os.Open(path)
	if err != nil {
		return
	}
	defer f.Close()
	sc := bufio.NewScanner(f)
	sc.Buffer(make([]byte, 1<<20), 1<<28)
	for sc.Scan() {
		var e map[string]json.RawMessage
		if json.Unmarshal(sc.Bytes(), &e) != nil {
			continue
		}
		var t string
		_ = json.Unmarshal(e["t"], &t)
		switch t {
		case "viol":
			var v DrvViol
			_ = json.Unmarshal(sc.Bytes(), &v)
			dr.Viols = append(dr.Viols, v)
		case "fatal":
			var m string
			_ = json.Unmarshal(e["msg"], &m)
			dr.Fatal = m
		case "sample":
			var v any
			_ = json.Unmarshal(e["v"], &v)
			dr.Samples = append(dr.Samples, v)
		case "END":
			dr.Ran = true
			_ = json.Unmarshal(e["stats"], &dr.Stats)
			_ = json.Unmarshal(e["viol_counts"], &dr.VCounts)
			_ = json.Unmarshal(e["notes"], &dr.Notes)
		}
	}
}

// Summarize folds driver results into counters and reports violations whose
// class passes the filter.
type DriverSummary struct {
	Stats       map[string]int
	Distinct    map[string]bool
	Ran         int
	NotRunnable int
	NotGen      int
	Samples     []any
	Notes       []string
}

func Summarize(r *core.Run, res []*DriverResult, classFilter func(class string) bool) *DriverSummary {
	s := &DriverSummary{Stats: map[string]int{}, Distinct: map[string]bool{}}
	for _, dr := range res {
		c := dr.G.P.Case
		if dr.G.Status != "ok" {
			s.NotGen++
			if c.Safe {
				msg := ""
				if len(dr.G.Msgs) > 0 {
					msg = core.NormMessage(dr.G.Msgs[0])
				}
				r.Report(core.Violation{Case: c.ID, Class: "not-generated:" + dr.G.Status, Message: msg, Spec: string(c.SpecBytes()), Flags: c.Flags})
			}
			continue
		}
		if !dr.Ran {
			s.NotRunnable++
			if !c.Safe {
				continue // outside the safe sub-dialect: C01 judges whether it should compile
			}
			msg := dr.Fatal
			if msg == "" {
				msg = firstBuildError(dr.Output)
			}
			obs := core.Trunc(dr.Output, 3000)
			if _, ex := crashExcerpt(dr.Output); ex != "" {
				obs = core.Trunc(ex, 6000)
			}
			r.Report(core.Violation{Case: c.ID, Class: "not-runnable", Message: core.NormMessage(msg), Observed: obs, Spec: string(c.SpecBytes()), Flags: c.Flags})
			continue
		}
		s.Ran++
		for k, n := range dr.Stats {
			if strings.HasPrefix(k, "distinct:") {
				s.Distinct[c.Label["set"]+"|"+c.Label["base"]+"|"+k] = true
				continue
			}
			s.Stats[k] += n
		}
		if len(s.Samples) < 4 {
			for _, sm := range dr.Samples {
				if len(s.Samples) < 4 {
					s.Samples = append(s.Samples, map[string]any{"case": c.ID, "observation": sm})
				}
			}
		}
		for _, n := range dr.Notes {
			if len(s.Notes) < 12 {
				s.Notes = append(s.Notes, c.ID+": "+n)
			}
		}
		if len(s.Samples) == 0 && len(dr.Stats) > 0 {
			s.Samples = append(s.Samples, map[string]any{"case": c.ID, "counts": dr.Stats})
		}
		for _, v := range dr.Viols {
			if classFilter != nil && !classFilter(v.Class) {
				continue
			}
			r.Report(core.Violation{Case: c.ID, Class: v.Class, Message: v.Msg, Input: v.Input, Expected: v.Expected, Observed: v.Observed, Spec: string(c.SpecBytes()), Flags: c.Flags})
		}
	}
	return s
}

// crashExcerpt finds the runtime's own headline of a dying test binary
// ("fatal error: ...", "panic: ...", race-detector limit) and the lines that
// follow it; log noise before it is dropped.
func crashExcerpt(out string) (string, string) {
	lines := strings.Split(out, "\n")
	for i, l := range lines {
		t := strings.TrimSpace(l)
		if strings.HasPrefix(t, "fatal error:") || strings.HasPrefix(t, "panic:") || strings.HasPrefix(t, "race: limit on") || strings.HasPrefix(t, "runtime: ") || strings.HasPrefix(t, "signal:") || strings.Contains(t, "test timed out after") {
			end := i + 80
			if end > len(lines) {
				end = len(lines)
			}
			return t, strings.Join(lines[i:end], "\n")
		}
	}
	return "", ""
}

func firstBuildError(out string) string {
	if h, _ := crashExcerpt(out); h != "" {
		return h
	}
	for _, l := range strings.Split(out, "\n") {
		if strings.Contains(l, ".go:") {
			return buildPosRe.ReplaceAllString(strings.TrimSpace(l), "$1: ")
		}
	}
	for _, l := range strings.Split(out, "\n") {
		if strings.Contains(l, "panic:") || strings.Contains(l, "fatal error:") {
			return strings.TrimSpace(l)
		}
	}
	return core.Trunc(strings.TrimSpace(out), 200)
}
