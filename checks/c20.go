package checks

import (
	"fmt"
	"os"
	"path/filepath"
	"regexp"
	"strings"
	"time"

	"verif/core"
	"verif/specgen"
)

func init() { Registry["C20"] = C20 }

var raceFrameRe = regexp.MustCompile(`(?m)^\s+(\S+\.go):(\d+)`)

// raceReports splits race-detector log text into report blocks.
func raceReports(text string) []string {
	var out []string
	parts := strings.Split(text, "WARNING: DATA RACE")
	for _, p := range parts[1:] {
		if i := strings.Index(p, "=================="); i >= 0 {
			p = p[:i]
		}
		out = append(out, p)
	}
	return out
}

// C20: concurrent requests are isolated and race-free.
func C20(r *core.Run) int {
	vgen, err := r.BuildVgen()
	if err != nil {
		r.Inconclusive("%v", err)
		return r.Finish(nil, nil)
	}
	// control: the detector must report a deliberate race in this environment
	ctl := filepath.Join(r.Scratch, "ctl")
	_ = os.MkdirAll(ctl, 0o755)
	_ = os.WriteFile(filepath.Join(ctl, "go.mod"), []byte("module ctl\n\ngo 1.23\n"), 0o644)
	_ = os.WriteFile(filepath.Join(ctl, "ctl_test.go"), []byte(`package ctl

import (
	"sync"
	"testing"
)

var shared int

func TestControl(t *testing.T) {
	var wg sync.WaitGroup
	for i := 0; i < 2; i++ {
		wg.Add(1)
		go func() {
			defer wg.Done()
			for j := 0; j < 1000; j++ {
				shared++
			}
		}()
	}
	wg.Wait()
}
`), 0o644)
	cout, _ := core.RunCmd(ctl, 10*time.Minute, []string{"GORACE=halt_on_error=0"}, "go", "test", "-race", "-count=1", "./...")
	if !strings.Contains(cout, "WARNING: DATA RACE") {
		r.Inconclusive("the race detector did not report the deliberate control race: %s", core.Trunc(cout, 300))
		return r.Finish(nil, nil)
	}
	n := 6
	params := map[string]any{"goroutines": 32, "requests": 40}
	if r.Thorough() {
		n = 40
		params = map[string]any{"goroutines": 64, "requests": 250}
	}
	var cases []specgen.Case
	cases = append(cases, specgen.KitchenSinks()...)
	add := func(cs []specgen.Case, k int) {
		for i, c := range cs {
			if i < k && c.Flags.Client {
				cases = append(cases, c)
			}
		}
	}
	add(specgen.SchemaCases(r.Seed, n, false), n)
	add(specgen.ResponseCases(r.Seed, n), n)
	add(specgen.ParamCases(r.Seed, n), n/2+3)
	rc := specgen.RouterCases(r.Seed, n)
	for i := range rc {
		rc[i].Flags.Client = true
	}
	add(rc[len(rc)-n:], n)
	res, err := RunDriver(r, vgen, "racemod", cases, DriverOpts{Modes: []string{"race"}, Params: params, Race: true, Env: []string{"GORACE=halt_on_error=0 log_path=race.log"}, Timeout: 40 * time.Minute})
	if err != nil {
		r.Inconclusive("%v", err)
		return r.Finish(nil, nil)
	}
	// a test binary fails when the detector reported something: still read its log
	s := Summarize(r, res, func(c string) bool { return c == "isolation" || c == "panic" || c == "driver-panic" })
	reports, generatedReports, driverOnly := 0, 0, 0
	seen := map[string]bool{}
	for _, dr := range res {
		logs, _ := filepath.Glob(filepath.Join(dr.G.P.Out, "race.log*"))
		for _, lf := range logs {
			bs, _ := os.ReadFile(lf)
			for _, rep := range raceReports(string(bs)) {
				reports++
				pkgDir := "/g/" + filepath.Base(dr.G.P.Out) + "/"
				var genFrames []string
				for _, m := range raceFrameRe.FindAllStringSubmatch(rep, -1) {
					if strings.Contains(m[1], pkgDir) && !strings.HasSuffix(m[1], "zz_verif_test.go") {
						genFrames = append(genFrames, filepath.Base(m[1])+":"+m[2])
					}
				}
				if len(genFrames) == 0 {
					driverOnly++
					continue
				}
				generatedReports++
				key := dr.G.P.Case.ID + "|" + strings.Join(genFrames[:min(2, len(genFrames))], ",")
				if seen[key] {
					continue
				}
				seen[key] = true
				r.Report(core.Violation{Case: dr.G.P.Case.ID, Class: "data-race", Message: "race detector report with generated-code frames: " + fileOnly(genFrames),
					Observed: core.Trunc(rep, 4000), Spec: string(dr.G.P.Case.SpecBytes())})
			}
		}
	}
	if driverOnly > 0 {
		r.Inconclusive("%d race reports contain driver frames only: the monitor itself races", driverOnly)
	}
	high := s.Stats["inflight_high_water"]
	if s.Stats["requests"] < 10000 {
		r.Inconclusive("only %d concurrent requests", s.Stats["requests"])
	}
	if s.Stats["distinct_interleavings"] < 10 {
		r.Inconclusive("only %d distinct interleaving signatures observed", s.Stats["distinct_interleavings"])
	}
	cov := map[string]any{
		"evaluations":              s.Stats["requests"] + s.Stats["spec_requests"],
		"distinct_nontrivial":      len(s.Distinct),
		"rule":                     "one evaluation = one request sent through ONE shared generated Client to ONE shared generated API by one of 32-64 goroutines (GOMAXPROCS 2, 4, 16), every string = the request's unique tag, every integer = its id, the id travelling out of band in the context; the handler checks that everything it parsed carries its own id and answers with its own id everywhere, the caller checks the echo; the whole process runs under the Go race detector (reports read from GORACE log files, attributed by frames); distinct = generated packages stressed",
		"samples":                  s.Samples,
		"race_reports":             reports,
		"race_reports_generated":   generatedReports,
		"race_reports_driver_only": driverOnly,
		"control_race_detected":    true,
		"inflight_high_water_sum":  high,
		"packages_driven":          s.Ran,
		"not_runnable":             s.NotRunnable,
		"event_counts":             s.Stats,
	}
	_ = fmt.Sprint
	return r.Finish(cov, []string{"yield points (Gosched, micro-sleeps, 7-byte reads) sit in user-side code between generated segments: middlewares, authenticators, handlers, body readers, transport, ResponseWriter", "only reports with a generated-code frame are violations; driver-only reports make the run inconclusive"})
}

func fileOnly(frames []string) string {
	var out []string
	seen := map[string]bool{}
	for _, f := range frames {
		fn := f[:strings.Index(f, ":")]
		if !seen[fn] {
			seen[fn] = true
			out = append(out, fn)
		}
	}
	return strings.Join(out, ",")
}
