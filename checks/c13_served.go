package checks

import (
	"encoding/json"
	"fmt"
	"strings"

	"verif/core"
	"verif/specgen"
)

func init() {
	c13Served = func(r *core.Run, vgen string) servedResult {
		var cases []specgen.Case
		mk := func(id string, raw []byte, ext string, fl specgen.Flags) {
			cases = append(cases, specgen.Case{ID: id, Family: "specfile", Raw: raw, Ext: ext, Flags: fl, Safe: true, Label: map[string]string{"set": id}})
		}
		d := specgen.NewDoc("served \\ \"quoted\" `tick` 100%")
		d.Op("/t/{id}", "get", specgen.M{"parameters": specgen.L{specgen.ParamNode("id", "path", true, specgen.Prim("string", ""))}})
		d.Op("/{any}", "get", specgen.M{"parameters": specgen.L{specgen.ParamNode("any", "path", true, specgen.Prim("string", ""))}})
		multi := specgen.MustJSON(d.Root)
		one, _ := json.Marshal(d.Root)
		tabbed, _ := json.MarshalIndent(d.Root, "", "\t")
		forms := map[string][]byte{
			"multi": multi, "oneline": one, "crlf": []byte(strings.ReplaceAll(string(multi), "\n", "\r\n")),
			"nofinalnl": []byte(strings.TrimRight(string(multi), "\n")), "tabs": tabbed,
			// blanks after the last text (read through the file path of the generator)
			"trailblank": []byte(strings.TrimRight(string(multi), "\n") + "  \n"), "trailtab": []byte(strings.TrimRight(string(multi), "\n") + "\t"),
			"trailblanklines": []byte(strings.TrimRight(string(multi), "\n") + " \n\n \n"),
		}
		bases := []specgen.Flags{{}, {BasePath: "/v1"}, {BasePath: "/v1/", Client: true}, {BasePath: "/a/b", SpecName: "spec.json"}, {SpecName: "api-docs.yaml", Cors: true},
			// names that URL escaping would rewrite: the route is compared with the decoded request path
			{SpecName: "open api.yaml"}, {SpecName: "docs/openapi.yaml", BasePath: "/v2"}, {SpecName: "pétstore.yaml"}, {SpecName: "a%20b.json"}, {SpecName: "spec+v1;x=1.yaml", Client: true},
			// names that are not Go string literal text as they stand
			{SpecName: "a\"b.yaml"}, {SpecName: "a\\b.yaml", BasePath: "/v1"}, {SpecName: "tab\there.yaml"},
			// ... and whose extension (spliced into the Content-Type of the answer) is not either
			{SpecName: "open\"api.ya\\ml"}, {SpecName: "spec.y\"ml", BasePath: "/v3"},
			// no extension at all, a trailing dot, a leading dot
			{SpecName: "openapi"}, {SpecName: "spec.", Client: true}, {SpecName: ".hidden", BasePath: "/v1"},
			// paths that "cleaning" would rewrite: an empty segment in the base path, a dot segment in the name
			{BasePath: "/api//v1"}, {SpecName: "./spec.yaml"}, {SpecName: "a/../spec.yaml", BasePath: "/v1"}}
		for name, raw := range forms {
			for bi, fl := range bases {
				mk(fmt.Sprintf("specfile/%s/base%d", name, bi), raw, ".json", fl)
			}
		}
		for i, c := range specgen.UpstreamCases(core.RepoDir()) {
			if i%3 == 0 {
				c.Family = "specfile"
				c.Label = map[string]string{"set": c.ID}
				c.Safe = false
				cases = append(cases, c)
			}
		}
		for _, c := range specgen.RouterCases(r.Seed, 6) {
			cases = append(cases, c)
		}
		res, err := RunDriver(r, vgen, "specmod", cases, DriverOpts{Modes: []string{"spec"}})
		if err != nil {
			r.Inconclusive("%v", err)
			return servedResult{}
		}
		s := Summarize(r, res, nil)
		if s.Stats["spec_requests"] < 500 {
			r.Inconclusive("only %d spec-route requests", s.Stats["spec_requests"])
		}
		return servedResult{requests: s.Stats["spec_requests"], distinct: len(s.Distinct), cov: map[string]any{"packages_driven": s.Ran, "event_counts": s.Stats, "not_runnable": s.NotRunnable}}
	}
}
