package checks

import (
	"bufio"
	"encoding/json"
	"os"
	"path/filepath"
	"sort"

	"verif/core"
	"verif/specgen"
)

func init() { Registry["C18"] = C18 }

func readWire(path string) (map[string]string, []string, error) {
	f, err := os.Open(path)
	if err != nil {
		return nil, nil, err
	}
	defer f.Close()
	m := map[string]string{}
	var order []string
	sc := bufio.NewScanner(f)
	sc.Buffer(make([]byte, 1<<20), 1<<28)
	for sc.Scan() {
		var rec struct {
			K string          `json:"k"`
			O json.RawMessage `json:"o"`
		}
		if json.Unmarshal(sc.Bytes(), &rec) != nil {
			continue
		}
		// canonical form of the outcome (sorted keys)
		var v any
		_ = json.Unmarshal(rec.O, &v)
		if m, ok := v.(map[string]any); ok {
			for k := range m {
				if len(k) > 0 && k[0] == '_' {
					delete(m, k) // informational fields are not compared
				}
			}
		}
		bs, _ := json.Marshal(v)
		m[rec.K] = string(bs)
		order = append(order, rec.K)
	}
	return m, order, nil
}

// C18: a $ref behaves exactly like the component it points to.
func C18(r *core.Run) int {
	vgen, err := r.BuildVgen()
	if err != nil {
		r.Inconclusive("%v", err)
		return r.Finish(nil, nil)
	}
	n := 10
	if r.Thorough() {
		n = 150
	}
	cases := specgen.RefPairs(r.Seed, n)
	res, err := RunDriver(r, vgen, "wiremod", cases, DriverOpts{Modes: []string{"wire"}})
	if err != nil {
		r.Inconclusive("%v", err)
		return r.Finish(nil, nil)
	}
	s := Summarize(r, res, func(c string) bool { return c == "driver-panic" || c == "panic" })
	groups := map[string]map[string]*DriverResult{}
	for _, dr := range res {
		pair, _ := dr.G.P.Case.Aux["pair"].(string)
		variant, _ := dr.G.P.Case.Aux["variant"].(string)
		if groups[pair] == nil {
			groups[pair] = map[string]*DriverResult{}
		}
		groups[pair][variant] = dr
	}
	pairsCompared, records, notComparable, refusedOneSide := 0, 0, 0, 0
	var samples []any
	var pairIDs []string
	for p := range groups {
		pairIDs = append(pairIDs, p)
	}
	sort.Strings(pairIDs)
	for _, p := range pairIDs {
		g := groups[p]
		orig := g["orig"]
		if orig == nil || !orig.Ran {
			notComparable++
			continue
		}
		om, order, err := readWire(filepath.Join(orig.G.P.Out, "verif_wire.jsonl"))
		if err != nil {
			notComparable++
			continue
		}
		for _, vn := range core.SortedKeys(g) {
			if vn == "orig" {
				continue
			}
			v := g[vn]
			switch {
			case v.G.Status == "refused":
				// the original is accepted, the rewrite refused: a behavioural difference of the generator itself
				refusedOneSide++
				r.Report(core.Violation{Case: v.G.P.Case.ID, Class: "variant-refused", Message: "goag accepts the spec but refuses its " + vn + " rewrite: " + core.Trunc(core.NormMessage(v.G.Msgs[0]), 160), Spec: string(v.G.P.Case.SpecBytes())})
				continue
			case !v.Ran:
				notComparable++ // does not compile: C01's business (recorded findings)
				continue
			}
			vm, _, err := readWire(filepath.Join(v.G.P.Out, "verif_wire.jsonl"))
			if err != nil {
				notComparable++
				continue
			}
			pairsCompared++
			ndiff := 0
			for _, k := range order {
				records++
				if vm[k] != om[k] {
					ndiff++
					if ndiff <= 2 {
						kind := "request outcome"
						if len(k) > 0 && containsStr(k, "|response|") {
							kind = "written response"
						} else if containsStr(k, "|body|") {
							kind = "request body outcome"
						}
						tag := ""
						if containsStr(vm[k], "\"IsSet\"") || containsStr(vm[k], "\"AdditionalProperties\"") || containsStr(om[k], "\"IsSet\"") || containsStr(om[k], "\"AdditionalProperties\"") {
							tag = " (one side encodes / decodes with Go field names: a type without generated codec)"
						}
						r.Report(core.Violation{Case: v.G.P.Case.ID, Class: "wire-difference", Message: kind + " differs between the spec and its " + vn + " rewrite" + tag,
							Input: k, Expected: om[k], Observed: vm[k], Spec: string(v.G.P.Case.SpecBytes())})
					}
				}
			}
			if len(vm) != len(om) {
				r.Report(core.Violation{Case: v.G.P.Case.ID, Class: "wire-difference", Message: "the transcripts of the spec and its " + vn + " rewrite have different inputs (oracle: inputs must depend on meaning only)", Expected: len(om), Observed: len(vm)})
			}
			if len(samples) < 3 && len(order) > 0 {
				samples = append(samples, map[string]any{"pair": p, "variant": vn, "records_equal": len(order) - ndiff, "example_input": order[len(order)/2], "example_outcome": om[order[len(order)/2]]})
			}
		}
	}
	if pairsCompared < 30 || records < 20000 {
		r.Inconclusive("only %d variant pairs / %d records compared", pairsCompared, records)
	}
	cov := map[string]any{
		"evaluations":         records,
		"distinct_nontrivial": pairsCompared,
		"rule":                "one evaluation = one wire-level input (request with one parameter varied over its lexeme table / absent / twice; JSON request-body document or single-fault mutant echoed through the parsed value; response description = status + typed header values + body document written by the handler) whose outcome was compared between a spec and one of its rewrites (inline parameters/headers/bodies/responses, inline everything, hoist everything, seeded partial hoist); distinct = (base spec, rewrite) pairs where both sides generated, compiled and ran",
		"samples":             samples,
		"pairs_compared":      pairsCompared,
		"not_comparable":      notComparable,
		"refused_one_side":    refusedOneSide,
		"packages_driven":     s.Ran,
		"event_counts":        s.Stats,
	}
	return r.Finish(cov, []string{"inputs are derived from the dereferenced view of the spec and a seed shared by the variants", "a rewrite that does not compile is C01's business (recorded findings) and is counted, not compared"})
}

func containsStr(s, sub string) bool {
	for i := 0; i+len(sub) <= len(s); i++ {
		if s[i:i+len(sub)] == sub {
			return true
		}
	}
	return false
}
