package checks

import (
	"encoding/base64"
	"encoding/json"
	"fmt"
	"math/rand"
	"os"
	"path/filepath"
	"strings"
	"time"

	"verif/core"
	"verif/specgen"
)

func init() { Registry["C13"] = C13 }

// c13Strings: all strings of length <= maxLen over the alphabet, then random texts.
func c13Strings(seed int64, maxLen, nRandom int) [][]byte {
	alpha := []byte{'`', '"', '\\', '\n', '\r', '$', 'a'}
	var out [][]byte
	var rec func(cur []byte, n int)
	rec = func(cur []byte, n int) {
		out = append(out, append([]byte{}, cur...))
		if n == 0 {
			return
		}
		for _, c := range alpha {
			rec(append(cur, c), n-1)
		}
	}
	rec(nil, maxLen)
	rng := rand.New(rand.NewSource(seed))
	pool := []string{"`", "\"", "\\", "\n", "\r", "\r\n", "$", "a", "openapi: 3.0.3", "%", "%s", "%d", "%%", "{{", "}}", "{{.}}", "\t", " ", "'", "\x00", "\xff", "\xef\xbb\xbf", "é", "✓", "\\n", "\\\"", "`+\"`\"+`", "*/", "//", " ", "\x7f", "${x}"}
	for i := 0; i < nRandom; i++ {
		n := 1 + rng.Intn(12)
		var b []byte
		for j := 0; j < n; j++ {
			b = append(b, pool[rng.Intn(len(pool))]...)
		}
		out = append(out, b)
	}
	return out
}

// C13 part (i): the compiled SpecFile constant equals the input bytes.
// Part (ii) (served body, middlewares, nil handler) runs in the driver.
func C13(r *core.Run) int {
	vgen, err := r.BuildVgen()
	if err != nil {
		r.Inconclusive("%v", err)
		return r.Finish(nil, nil)
	}
	maxLen, nRandom := 4, 600
	if r.Thorough() {
		nRandom = 4000
	}
	contents := c13Strings(r.Seed, maxLen, nRandom)
	// real specs in several textual forms
	doc := specgen.NewDoc("c13")
	doc.Op("/t", "get", nil)
	oneLine, _ := json.Marshal(doc.Root)
	multi := specgen.MustJSON(doc.Root)
	withBackslash := strings.Replace(string(oneLine), `"c13"`, `"c\\13 \"q\" é"`, 1)
	contents = append(contents, oneLine, multi, []byte(withBackslash),
		[]byte(strings.ReplaceAll(string(multi), "\n", "\r\n")),
		[]byte(strings.TrimRight(string(multi), "\n")),
		[]byte("openapi: \"3.0.3\"\ninfo:\n  title: \"a `b` c\"\n  version: '1'\npaths: {}\n"),
		[]byte("openapi: \"3.0.3\"\r\ninfo:\r\n  title: t\r\n  version: '1'\r\npaths: {}"),
		[]byte("{\"openapi\":\"3.0.3\",\"info\":{\"title\":\"100% \\\\ back\",\"version\":\"1\"},\"paths\":{}}"))
	// lines made of blanks only, trailing blanks, blank lines at both ends
	contents = append(contents,
		[]byte("openapi: \"3.0.3\"\ninfo:\n  title: t\n  description: |\n    first\n    \n    third\n  version: '1'\npaths: {}\n"),
		[]byte("openapi: \"3.0.3\"\n \n\t\n  \t \ninfo: {title: t, version: '1'}\npaths: {}\n"),
		[]byte("\n\n  \nopenapi: \"3.0.3\"\ninfo: {title: t, version: '1'}   \npaths: {}\t\n\n \n"),
		[]byte("{\n  \n\t\"openapi\": \"3.0.3\",\n    \n\"info\": {\"title\": \"t\", \"version\": \"1\"}, \"paths\": {}\n}\n"))
	// the last non-empty line ends in blanks (with and without a final newline)
	contents = append(contents,
		[]byte("openapi: \"3.0.3\"\ninfo: {title: t, version: '1'}\npaths: {}  \n"),
		[]byte("openapi: \"3.0.3\"\ninfo: {title: t, version: '1'}\npaths: {}\t\n"),
		[]byte("openapi: \"3.0.3\"\ninfo: {title: t, version: '1'}\npaths: {} \t "),
		[]byte("openapi: \"3.0.3\"\ninfo: {title: t, version: '1'}\npaths: {}  \n\n\n"),
		[]byte("{\"openapi\":\"3.0.3\",\"info\":{\"title\":\"t\",\"version\":\"1\"},\"paths\":{}} \n"))
	// long files: whatever the generator does to long literals (wrapping,
	// chunking, switching strategy) must not depend on where a rune or an
	// escape sequence happens to fall; the fillers are dense in runes that
	// strconv.Quote writes as multi-character escapes, in back quotes, and in
	// multi-byte UTF-8, so that every cut column lies inside one of them
	fillers := []string{"abcdefghij", "\u00a0", "\u2028\u200b", "\x01\x7f", "`", "\"\\", "é✓𝄞", "mid\ufeffbom "}
	for fi, f := range fillers {
		for si, size := range []int{1000, 2040, 2048, 2060, 4096, 70000} {
			if size > 5000 && fi%3 != 0 {
				continue
			}
			body := strings.Repeat(f, size/len(f)+1)
			js, _ := json.Marshal(body) // a JSON string holding the filler
			one := `{"openapi":"3.0.3","info":{"title":` + string(js) + `,"version":"1"},"paths":{}}`
			contents = append(contents, []byte(one))
			if si%2 == 0 {
				contents = append(contents, []byte("openapi: \"3.0.3\"\r\ninfo:\r\n  title: "+string(js)+"\r\n  version: '1'\r\npaths: {}\r\n"))
				// raw UTF-8 instead of JSON escapes, multi-line (raw-string strategy)
				contents = append(contents, []byte("openapi: \"3.0.3\"\ninfo:\n  title: '"+strings.ReplaceAll(body, "'", "''")+"'\n  version: '1'\npaths: {}\n"))
				contents = append(contents, []byte(`{"openapi":"3.0.3","info":{"title":"`+strings.NewReplacer("\"", "\\\"", "\\", "\\\\", "\x01", "?", "\x7f", "?").Replace(body)+`","version":"1"},"paths":{}}`))
			}
		}
	}
	for _, c := range specgen.UpstreamCases(core.RepoDir()) {
		contents = append(contents, c.Raw)
	}
	nExhaustive := 0
	for n, p := 0, 1; n <= maxLen; n++ {
		nExhaustive += p
		p *= 7
	}
	root := filepath.Join(r.Scratch, "c13mod")
	specPath := filepath.Join(root, "fixed.json")
	_ = os.MkdirAll(root, 0o755)
	_ = os.WriteFile(specPath, multi, 0o644)
	jobs := make([]core.Job, len(contents))
	for i, c := range contents {
		jobs[i] = core.Job{ID: fmt.Sprintf("b%05d", i), Mode: "raw", Spec: specPath, Out: filepath.Join(root, "gen", fmt.Sprintf("b%05d", i)),
			Package: "gen", RawB64: base64.StdEncoding.EncodeToString(c), SpecName: "openapi.yaml"}
	}
	res := r.RunJobs(vgen, jobs, workers(), 20*time.Second)
	// keep only spec_file.go of each run as its own package s/bNNNNN, plus a
	// driver main that compares every constant with the expected bytes
	var imports, table strings.Builder
	n := 0
	failed := map[string]bool{}
	for i, j := range jobs {
		rs := res[j.ID]
		if !rs.OK {
			r.Report(core.Violation{Case: "content-" + describe(contents[i]), Class: "generation-failed", Message: core.Trunc(rs.Err+rs.Panic+rs.Fatal, 200), Input: contents[i]})
			failed[j.ID] = true
			continue
		}
		bs, err := os.ReadFile(filepath.Join(j.Out, "spec_file.go"))
		if err != nil {
			r.Report(core.Violation{Case: "content-" + describe(contents[i]), Class: "no-spec-file", Message: err.Error()})
			failed[j.ID] = true
			continue
		}
		d := filepath.Join(root, "s", j.ID)
		_ = os.MkdirAll(d, 0o755)
		_ = os.WriteFile(filepath.Join(d, "spec_file.go"), bs, 0o644)
		n++
	}
	_ = os.RemoveAll(filepath.Join(root, "gen"))
	if err := core.WriteModule(root, "c13mod", false); err != nil {
		r.Inconclusive("%v", err)
		return r.Finish(nil, nil)
	}
	// build all constant packages first: a package that does not compile has no constant at all
	out, _ := core.RunCmd(root, 20*time.Minute, nil, "go", "build", "./s/...")
	berrs := core.ParseBuildErrors(out)
	for pkg, lines := range berrs {
		id := filepath.Base(pkg)
		var idx int
		fmt.Sscanf(id, "b%05d", &idx)
		failed[id] = true
		r.Report(core.Violation{Case: "content-" + describe(contents[idx]), Class: "constant-does-not-compile", Message: buildPosRe.ReplaceAllString(lines[0], "$1: "), Input: string(contents[idx]), Observed: lines})
	}
	// expected table + driver
	exp := map[string]string{}
	for i, j := range jobs {
		if failed[j.ID] {
			continue
		}
		fmt.Fprintf(&imports, "\t%s \"c13mod/s/%s\"\n", j.ID, j.ID)
		fmt.Fprintf(&table, "\t{%q, %s.SpecFile},\n", j.ID, j.ID)
		exp[j.ID] = base64.StdEncoding.EncodeToString(contents[i])
	}
	ebs, _ := json.Marshal(exp)
	_ = os.WriteFile(filepath.Join(root, "expected.json"), ebs, 0o644)
	mainSrc := "package main\n\nimport (\n\t\"encoding/base64\"\n\t\"encoding/json\"\n\t\"fmt\"\n\t\"os\"\n" + imports.String() + ")\n\n" +
		"var table = []struct{ id, got string }{\n" + table.String() + "}\n\n" +
		`func main() {
	bs, err := os.ReadFile("expected.json")
	if err != nil {
		panic(err)
	}
	exp := map[string]string{}
	if err := json.Unmarshal(bs, &exp); err != nil {
		panic(err)
	}
	for _, t := range table {
		want, _ := base64.StdEncoding.DecodeString(exp[t.id])
		if string(want) != t.got {
			fmt.Printf("DIFF %s %s\n", t.id, base64.StdEncoding.EncodeToString([]byte(t.got)))
		} else {
			fmt.Printf("SAME %s\n", t.id)
		}
	}
}
`
	_ = os.MkdirAll(filepath.Join(root, "cmd"), 0o755)
	_ = os.WriteFile(filepath.Join(root, "cmd", "main.go"), []byte(mainSrc), 0o644)
	out, err = core.RunCmd(root, 20*time.Minute, nil, "go", "run", "./cmd")
	if err != nil {
		r.Inconclusive("constant driver failed: %v: %s", err, core.Trunc(out, 600))
		return r.Finish(nil, nil)
	}
	same, diff := 0, 0
	var samples []any
	for _, line := range strings.Split(out, "\n") {
		f := strings.Fields(line)
		if len(f) < 2 {
			continue
		}
		var idx int
		fmt.Sscanf(f[1], "b%05d", &idx)
		switch f[0] {
		case "SAME":
			same++
			if len(samples) < 4 && idx%977 == 5 {
				samples = append(samples, map[string]any{"input_quoted": fmt.Sprintf("%q", core.Trunc(string(contents[idx]), 60)), "compiled SpecFile": "equal"})
			}
		case "DIFF":
			diff++
			got, _ := base64.StdEncoding.DecodeString(f[2])
			r.Report(core.Violation{Case: "content-" + describe(contents[idx]), Class: "constant-differs", Message: fmt.Sprintf("SpecFile = %q, file = %q", core.Trunc(string(got), 60), core.Trunc(string(contents[idx]), 60)),
				Input: fmt.Sprintf("%q", contents[idx]), Observed: fmt.Sprintf("%q", got)})
		}
	}
	if same+diff != len(exp) {
		r.Inconclusive("driver reported %d constants, expected %d", same+diff, len(exp))
	}
	served := c13Served(r, vgen)
	cov := map[string]any{
		"evaluations":         len(contents) + served.requests,
		"distinct_nontrivial": same + diff + len(berrs) + served.distinct,
		"rule":                "one evaluation = one byte string given to the real Generate as spec content, spec_file.go compiled and the constant compared at run time with the input; distinct = distinct byte strings (all 2801 strings of length <= 4 over {`,\",\\,LF,CR,$,a} + seeded random texts + real specs in one-line / multi-line / CRLF forms + the 43 upstream files); plus served-body requests (part ii)",
		"samples":             samples,
		"exhaustive":          true,
		"exhaustive_space":    fmt.Sprintf("all %d strings of length <= %d over 7 symbols", nExhaustive, maxLen),
		"random_texts":        nRandom,
		"constants_equal":     same,
		"constants_differ":    diff,
		"not_compilable":      len(berrs),
		"served":              served.cov,
	}
	return r.Finish(cov, []string{"the Go compiler evaluates the constant; comparison happens in a compiled program"})
}

func describe(b []byte) string {
	s := fmt.Sprintf("%q", b)
	if len(s) > 48 {
		s = s[:48] + "…"
	}
	return s
}

type servedResult struct {
	requests, distinct int
	cov                map[string]any
}

// c13Served is filled in by the driver-based part (see c13_served.go).
var c13Served = func(r *core.Run, vgen string) servedResult { return servedResult{} }
