package checks

import (
	"verif/core"
	"verif/specgen"
)

func init() { Registry["C11"] = C11 }

// C11: security requirements are enforced per operation.
func C11(r *core.Run) int {
	vgen, err := r.BuildVgen()
	if err != nil {
		r.Inconclusive("%v", err)
		return r.Finish(nil, nil)
	}
	cases := specgen.SecurityCases(r.Seed, r.Thorough())
	res, err := RunDriver(r, vgen, "secmod", cases, DriverOpts{Modes: []string{"sec"}})
	if err != nil {
		r.Inconclusive("%v", err)
		return r.Finish(nil, nil)
	}
	s := Summarize(r, res, nil)
	if s.Stats["requests"] < 5000 || s.Stats["expected_run"] < 500 || s.Stats["expected_refuse"] < 500 {
		r.Inconclusive("too few observations: %v", s.Stats)
	}
	var samples []any
	for _, dr := range res {
		if dr.Ran && len(samples) < 3 {
			samples = append(samples, map[string]any{"case": dr.G.P.Case.ID, "counts": dr.Stats})
		}
	}
	cov := map[string]any{
		"evaluations":         s.Stats["requests"],
		"distinct_nontrivial": len(s.Distinct),
		"rule":                "one evaluation = one request to one operation under one assignment of {valid, invalid, absent} credentials to all schemes of the spec and one authenticator configuration (all installed / one nil), judged by the authorisation evaluator (effective requirement = own list else global; alternatives OR-ed, schemes inside one alternative AND-ed); distinct = (operation, requirement, credential assignment, nil authenticator) tuples",
		"samples":             samples,
		"specs":               len(cases),
		"packages_driven":     s.Ran,
		"not_generated":       s.NotGen,
		"not_runnable":        s.NotRunnable,
		"event_counts":        s.Stats,
	}
	return r.Finish(cov, []string{"authenticators are recorders accepting exactly one token per scheme and tagging the request context", "a nil authenticator can never accept"})
}
