package checks

import (
	"fmt"
	"os"
	"path/filepath"
	"regexp"
	"sort"
	"strings"
	"sync"
	"time"

	"verif/core"
	"verif/specgen"
)

func init() { Registry["C15"] = C15 }

var goagFrameRe = regexp.MustCompile(`(?m)^\s+(?:` + regexp.QuoteMeta(core.RepoDir()) + `|[^\s]*vkd/goag[^\s/]*)/([a-z_/]+\.go):(\d+)`)

func panicSite(stack string) string {
	// first frame inside goag below the panic
	ms := goagFrameRe.FindAllStringSubmatch(stack, -1)
	for _, m := range ms {
		return m[1] + ":" + m[2]
	}
	return "unknown"
}

// C15: the generator fails cleanly instead of crashing.
func C15(r *core.Run) int {
	vgen, err := r.BuildVgen()
	if err != nil {
		r.Inconclusive("%v", err)
		return r.Finish(nil, nil)
	}
	cli, err := r.BuildCLI()
	if err != nil {
		r.Inconclusive("%v", err)
		return r.Finish(nil, nil)
	}
	perBase := 40
	nMatrix := 25
	if r.Thorough() {
		perBase = 600
		nMatrix = 150
	}
	// base documents
	type base struct {
		id  string
		doc specgen.M
	}
	var bases []base
	for _, c := range specgen.UpstreamCases(core.RepoDir()) {
		t, err := specgen.YAMLToTree(c.Raw)
		if err != nil {
			continue
		}
		bases = append(bases, base{c.ID, t})
	}
	for _, c := range Sample(specgen.MatrixCases(), nMatrix, r.Seed+11) {
		bases = append(bases, base{c.ID, c.Spec})
	}
	bases = append(bases, base{"mapfat-4", specgen.MapFat(4).Spec})
	famMax := 40
	if r.Thorough() {
		famMax = 300
	}
	sampled := map[string]bool{}
	for _, c := range Sample(specgen.FamilyCases(r.Seed, false), famMax, r.Seed+13) {
		if c.Spec != nil {
			bases = append(bases, base{c.ID, c.Spec})
			sampled[c.ID] = true
		}
	}
	var cases []specgen.Case
	// the specs with colliding / letter-less route names always take part, as
	// they are and as bases: the name de-duplication is a loop of its own
	for _, c := range specgen.FamilyCases(r.Seed, false) {
		if c.Spec != nil && strings.HasPrefix(c.ID, "router-names-") {
			if !sampled[c.ID] {
				bases = append(bases, base{c.ID, c.Spec})
			}
			cases = append(cases, specgen.Case{ID: "base/" + c.ID, Family: "mutant", Spec: c.Spec,
				Flags: specgen.Flags{Client: true}, Label: map[string]string{"op": "identity", "base": c.ID}})
		}
	}
	ops := map[string]int{}
	for bi, b := range bases {
		for mi, m := range specgen.Mutants(b.doc, r.Seed*1000+int64(bi), perBase) {
			// every third mutant runs without the API handler (client and
			// components only): other render paths are reached first
			fl := specgen.Flags{Client: true, NoAPIHandler: (mi+bi)%3 == 2}
			// ... and some are served under a name without extension / with odd dots
			switch (mi + 2*bi) % 11 {
			case 3:
				fl.SpecName = "openapi"
			case 7:
				fl.SpecName = "spec."
			case 9:
				fl.SpecName = ".json"
			}
			cases = append(cases, specgen.Case{ID: "mut/" + b.id + "/" + m.ID, Family: "mutant", Spec: m.Doc,
				Flags: fl, Label: map[string]string{"op": m.Op, "base": b.id}})
			ops[strings.SplitN(m.Op, "=", 2)[0]]++
		}
	}
	root := filepath.Join(r.Scratch, "c15")
	outs, err := Generate(r, vgen, root, cases)
	if err != nil {
		r.Inconclusive("%v", err)
		return r.Finish(nil, nil)
	}
	status := map[string]int{}
	sites := map[string]int{}
	var samples []any
	withLocation := 0
	errors := 0
	var recheck []*GenOutcome
	for _, g := range outs {
		status[g.Status]++
		switch g.Status {
		case "panic":
			site := panicSite(g.Res.Stack)
			sites[site]++
			if sites[site] <= 2 {
				r.Report(core.Violation{Case: g.P.Case.ID, Class: "panic", Message: site + ": " + core.Trunc(g.Res.Panic, 160),
					Observed: core.Trunc(g.Res.Stack, 3000), Spec: string(g.P.Case.SpecBytes()), Expected: "success or an error"})
			}
			recheck = append(recheck, g)
		case "fatal":
			r.Report(core.Violation{Case: g.P.Case.ID, Class: "crash-or-hang", Message: core.Trunc(firstLine(g.Msgs[0]), 200),
				Observed: core.Trunc(g.Msgs[0], 4000), Spec: string(g.P.Case.SpecBytes()), Expected: "termination with success or an error"})
			recheck = append(recheck, g)
		case "refused":
			errors++
			msg := g.Res.Err
			if strings.TrimSpace(msg) == "" || msg == "<empty error message>" {
				r.Report(core.Violation{Case: g.P.Case.ID, Class: "empty-error", Message: "error with an empty message", Spec: string(g.P.Case.SpecBytes())})
			} else if strings.Contains(msg, "runtime error:") || strings.Contains(msg, "nil pointer dereference") || strings.Contains(msg, "interface conversion:") {
				r.Report(core.Violation{Case: g.P.Case.ID, Class: "runtime-error-as-message", Message: core.Trunc(msg, 200), Spec: string(g.P.Case.SpecBytes())})
			}
			if saysWhere(msg, g.P.Case.ID) {
				withLocation++
			}
			if len(samples) < 5 && g.P.Idx%211 == 0 {
				samples = append(samples, map[string]any{"mutant": g.P.Case.ID, "outcome": "error", "message": core.Trunc(msg, 200)})
			}
			if g.P.Idx%17 == 0 {
				recheck = append(recheck, g)
			}
		case "ok", "format-error", "gofmt":
			if g.P.Idx%41 == 0 {
				recheck = append(recheck, g)
			}
		}
	}
	// CLI: exit status and stderr shape
	var mu sync.Mutex
	cliRuns := 0
	ch := make(chan *GenOutcome)
	var wg sync.WaitGroup
	for w := 0; w < workers(); w++ {
		wg.Add(1)
		go func() {
			defer wg.Done()
			for g := range ch {
				p := g.P
				p.Out += "-cli"
				out, err := core.RunCmd(r.Scratch, 30*time.Second, nil, cli, p.CLIArgs()...)
				mu.Lock()
				cliRuns++
				mu.Unlock()
				hasPanic := strings.Contains(out, "panic:") || strings.Contains(out, "goroutine ")
				isTimeout := err != nil && strings.Contains(err.Error(), "timeout")
				switch {
				case isTimeout:
					r.Report(core.Violation{Case: g.P.Case.ID, Class: "crash-or-hang", Message: "CLI did not terminate within 30 seconds", Spec: string(g.P.Case.SpecBytes())})
				case hasPanic:
					if g.Status != "panic" && g.Status != "fatal" {
						r.Report(core.Violation{Case: g.P.Case.ID, Class: "panic", Message: "CLI: " + core.Trunc(firstLine(out), 160), Observed: core.Trunc(out, 3000), Spec: string(g.P.Case.SpecBytes())})
					}
				case err == nil && !g.Res.OK && g.Status != "panic" && g.Status != "fatal":
					r.Report(core.Violation{Case: g.P.Case.ID, Class: "exit-status", Message: "CLI exit status 0 although generation returned an error: " + core.Trunc(g.Res.Err, 120), Spec: string(g.P.Case.SpecBytes())})
				case err != nil && g.Res.OK:
					r.Report(core.Violation{Case: g.P.Case.ID, Class: "exit-status", Message: "CLI exit status non-zero although generation succeeded in-process: " + core.Trunc(out, 160), Spec: string(g.P.Case.SpecBytes())})
				case err != nil && !strings.Contains(out, "Error on generate:"):
					r.Report(core.Violation{Case: g.P.Case.ID, Class: "exit-status", Message: "CLI failed without 'Error on generate:' on stderr: " + core.Trunc(out, 160), Spec: string(g.P.Case.SpecBytes())})
				}
			}
		}()
	}
	hangs := 0
	for _, g := range recheck {
		if g.Status == "fatal" && len(g.Msgs) > 0 && strings.Contains(g.Msgs[0], "did not finish within") {
			// already a violation (the in-process run did not terminate): the CLI
			// is tried on a few of them only, each costs its full deadline
			hangs++
			if hangs > 3 {
				continue
			}
		}
		ch <- g
	}
	close(ch)
	wg.Wait()
	dirRuns := c15DirMode(r, cli, outs)
	inDomain := status["ok"] + status["refused"] + status["panic"] + status["fatal"] + status["format-error"] + status["gofmt"]
	if inDomain < 500 {
		r.Inconclusive("only %d mutants accepted by the loader", inDomain)
	}
	var siteList []string
	for s, n := range sites {
		siteList = append(siteList, fmt.Sprintf("%s x%d", s, n))
	}
	sort.Strings(siteList)
	ratio := 0.0
	if errors > 0 {
		ratio = float64(withLocation) / float64(errors)
	}
	cov := map[string]any{
		"evaluations":               len(outs) + cliRuns,
		"distinct_nontrivial":       inDomain,
		"rule":                      "one evaluation = one run of the real generator on one structural mutant (delete key / null / swap JSON type at a seeded sample of tree nodes + all targeted mutations: drop or null `schema`, `content` parameters, drop `items`, unsupported type/format, missing / wrong-kind / self $ref, non-string or missing server-variable defaults, cookie parameters, empty maps); distinct = mutants the kin-openapi loader accepted (the property's domain)",
		"samples":                   samples,
		"status_counts":             status,
		"bases":                     len(bases),
		"mutation_ops":              ops,
		"loader_rejected_or_panic":  status["loader"],
		"panic_sites":               siteList,
		"cli_runs":                  cliRuns,
		"dir_mode_runs":             dirRuns,
		"error_names_location_rate": ratio,
	}
	return r.Finish(cov, []string{"domain = documents accepted by openapi3.SwaggerLoader.LoadSwaggerFromFile (checked per mutant before generating)", "'says where' is judged weakly: non-empty, not a bare Go runtime error text; the share of messages quoting a key from the mutated location is reported, not judged"})
}

func firstLine(s string) string {
	if i := strings.IndexByte(s, '\n'); i >= 0 {
		return s[:i]
	}
	return s
}

// saysWhere: the message mentions some key on the path to the mutated node.
func saysWhere(msg, caseID string) bool {
	i := strings.LastIndex(caseID, "@/")
	if i < 0 {
		return false
	}
	for _, seg := range strings.Split(caseID[i+2:], "/") {
		if len(seg) >= 2 && strings.Contains(msg, seg) {
			return true
		}
	}
	return false
}

// c15DirMode: the CLI's --dir mode over several spec directories must exit
// non-zero as soon as one of them is refused, wherever it sorts.
func c15DirMode(r *core.Run, cli string, outs []*GenOutcome) int {
	// a refused and a generated case under the same command-line flags (the
	// verdict of some specs depends on --client)
	var good, bad *GenOutcome
	for _, g := range outs {
		if g.Status == "refused" && g.P.Case.Flags.BasePath == "" && !g.P.Case.Flags.Cors && !g.P.Case.Flags.NoAPIHandler && g.P.Case.CfgRaw == nil {
			bad = g
			break
		}
	}
	if bad == nil {
		return 0
	}
	for _, g := range outs {
		if g.Status == "ok" && g.P.Case.Flags.Client == bad.P.Case.Flags.Client && !g.P.Case.Flags.Cors && !g.P.Case.Flags.NoAPIHandler && g.P.Case.CfgRaw == nil {
			good = g
			break
		}
	}
	if good == nil {
		return 0
	}
	runs := 0
	layouts := map[string][]string{
		"all-good":     {"a:good", "b:good", "c:good"},
		"bad-first":    {"a:bad", "b:good", "c:good"},
		"bad-middle":   {"a:good", "b:bad", "c:good"},
		"bad-last":     {"a:good", "b:good", "c:bad"},
		"bad-only":     {"a:bad"},
		"bad-bad-good": {"a:bad", "b:bad", "c:good"},
	}
	for _, name := range core.SortedKeys(layouts) {
		root := filepath.Join(r.Scratch, "dirmode", name)
		expectFail := false
		for _, ent := range layouts[name] {
			parts := strings.SplitN(ent, ":", 2)
			d := filepath.Join(root, parts[0])
			_ = os.MkdirAll(d, 0o755)
			src := good
			if parts[1] == "bad" {
				src = bad
				expectFail = true
			}
			_ = os.WriteFile(filepath.Join(d, "openapi.yaml"), src.P.Case.SpecBytes(), 0o644)
		}
		out, err := core.RunCmd(r.Scratch, 2*time.Minute, nil, cli, "--dir", root, "--package", "gen", "--spec", "openapi.yaml", fmt.Sprintf("--client=%v", bad.P.Case.Flags.Client))
		runs++
		switch {
		case expectFail && err == nil:
			r.Report(core.Violation{Case: "dirmode/" + name, Class: "exit-status", Message: "--dir mode exited 0 although one of the spec directories was refused", Observed: core.Trunc(out, 1500), Spec: string(bad.P.Case.SpecBytes())})
		case !expectFail && err != nil:
			r.Report(core.Violation{Case: "dirmode/" + name, Class: "exit-status", Message: "--dir mode failed although every spec directory generates alone", Observed: core.Trunc(out, 1500)})
		case strings.Contains(out, "panic:") || strings.Contains(out, "goroutine "):
			r.Report(core.Violation{Case: "dirmode/" + name, Class: "panic", Message: "--dir mode: " + core.Trunc(firstLine(out), 160), Observed: core.Trunc(out, 1500)})
		}
	}
	return runs
}
