package checks

import (
	"fmt"
	"math/rand"
	"os"
	"path/filepath"
	"sort"
	"strings"
	"sync"
	"time"

	"verif/core"
	"verif/specgen"
)

func init() { Registry["C19"] = C19 }

type c19Inv struct {
	Spec    string // key into specs
	Client  bool
	API     bool
	DNE     bool
	Package string
	Base    string // --basepath ("" = not given)
}

func (i c19Inv) String() string {
	s := fmt.Sprintf("%s/client=%v/api=%v/dne=%v/pkg=%s", i.Spec, i.Client, i.API, i.DNE, i.Package)
	if i.Base != "" {
		s += "/base=" + i.Base
	}
	return s
}

var c19Owned = []string{"components.go", "handler.go", "router.go", "spec_file.go", "client.go"}

func c19Specs() map[string][]byte {
	out := map[string][]byte{}
	// A: with components, three operations
	a := specgen.NewDoc("A")
	a.Comp("schemas", "Pet", specgen.Obj([]string{"id"}, specgen.M{"id": specgen.Prim("integer", "int64"), "name": specgen.Prim("string", "")}))
	a.Comp("schemas", "Err", specgen.Obj([]string{"msg"}, specgen.M{"msg": specgen.Prim("string", "")}))
	a.Op("/pets", "get", specgen.M{"parameters": specgen.L{specgen.ParamNode("limit", "query", false, specgen.Prim("integer", "int32"))},
		"responses": specgen.M{"200": specgen.Resp("ok", specgen.Arr(specgen.Ref("schemas", "Pet"))), "default": specgen.Resp("e", specgen.Ref("schemas", "Err"))}})
	a.Op("/pets", "post", specgen.M{"requestBody": specgen.M{"required": true, "content": specgen.JSONContent(specgen.Ref("schemas", "Pet"))},
		"responses": specgen.M{"201": specgen.Resp("ok", specgen.Ref("schemas", "Pet"))}})
	a.Op("/pets/{id}", "get", specgen.M{"parameters": specgen.L{specgen.ParamNode("id", "path", true, specgen.Prim("string", ""))},
		"responses": specgen.M{"200": specgen.Resp("ok", specgen.Ref("schemas", "Pet"))}})
	out["A"] = specgen.MustJSON(a.Root)
	// B: no components at all, one operation (shorter output than A)
	b := specgen.NewDoc("B")
	b.Op("/ping", "get", specgen.M{"parameters": specgen.L{specgen.ParamNode("q", "query", false, specgen.Prim("string", ""))}})
	out["B"] = specgen.MustJSON(b.Root)
	// C: components, shorter than A, different content
	c := specgen.NewDoc("C")
	c.Comp("schemas", "Thing", specgen.Obj(nil, specgen.M{"x": specgen.Prim("string", "")}))
	c.Op("/things", "get", specgen.M{"responses": specgen.M{"200": specgen.Resp("ok", specgen.Ref("schemas", "Thing"))}})
	out["C"] = specgen.MustJSON(c.Root)
	// D: no components, longer than B
	d := specgen.NewDoc("D")
	for _, p := range []string{"/a", "/b", "/c/{v}"} {
		op := specgen.M{"parameters": specgen.L{specgen.ParamNode("h", "header", false, specgen.Prim("string", ""))}}
		if strings.Contains(p, "{v}") {
			op["parameters"] = append(op["parameters"].(specgen.L), specgen.ParamNode("v", "path", true, specgen.Prim("integer", "")))
		}
		d.Op(p, "get", op)
	}
	out["D"] = specgen.MustJSON(d.Root)
	// E: a legal component name that is no Go identifier: goag writes the
	// files unformatted, logs the format error and exits 0 (recorded C01
	// finding); the directory must still reflect this invocation alone
	e := specgen.NewDoc("E")
	e.Comp("schemas", "order-line", specgen.Obj([]string{"sku"}, specgen.M{"sku": specgen.Prim("string", ""), "qty": specgen.Prim("integer", "int32")}))
	e.Op("/orders", "get", specgen.M{"responses": specgen.M{"200": specgen.Resp("ok", specgen.Arr(specgen.Ref("schemas", "order-line")))}})
	out["E"] = specgen.MustJSON(e.Root)
	// F: no operations at all (goag accepts `paths: {}`)
	f := specgen.NewDoc("F")
	f.Root["paths"] = specgen.M{}
	out["F"] = specgen.MustJSON(f.Root)
	// G: a components section holding nothing goag renders into components.go
	// (a security scheme, a parameter): "has components" and "has something to
	// render" are two questions
	g := specgen.NewDoc("G")
	g.Comp("securitySchemes", "bearerAuth", specgen.M{"type": "http", "scheme": "bearer"})
	g.Comp("parameters", "Limit", specgen.ParamNode("limit", "query", false, specgen.Prim("integer", "int32")))
	g.Op("/secured", "get", specgen.M{"security": specgen.L{specgen.M{"bearerAuth": specgen.L{}}}, "parameters": specgen.L{specgen.Ref("parameters", "Limit")}})
	out["G"] = specgen.MustJSON(g.Root)
	return out
}

// user files that goag does not own; user.go deliberately imports packages
// under the names the generated code uses (log, fmt), so that output which
// depends on neighbouring files shows up as a difference.
var c19UserFiles = map[string]string{
	"user.go":         "package gen\n\nimport (\n\tfmt \"example.com/xfmt\"\n\tlog \"example.com/xlog\"\n)\n\nfunc userHelper() {\n\tlog.Println(fmt.Sprintf(\"x\"), fmt.Errorf(\"y\"))\n\tlog.Printf(\"z\")\n}\n",
	"models_test.go":  "package gen\n\nimport \"testing\"\n\nfunc TestUser(t *testing.T) {}\n",
	"README.md":       "# user notes\n",
	"sub/keep.txt":    "keep me\n",
	"handler_user.go": "package gen\n\n// a file whose name merely resembles a generated one\n",
	// dot files in the style of goag's own config: the user's, not goag's
	".goag.yaml":  "cors:\n  enable: true\n",
	".goag.local": "scratch notes\n",
	".gitignore":  "*.tmp\n",
	// names close to goag's own (and to what earlier generators called their output)
	"schemas.go": "package gen\n\ntype Money struct{ Cents int64 }\n",
	"spec.go":    "package gen\n\nconst userSpecNote = \"mine\"\n",
	"models.go":  "package gen\n\ntype userModel struct{}\n",
	"client_user.go": "package gen\n",
}

func C19(r *core.Run) int {
	cli, err := r.BuildCLI()
	if err != nil {
		r.Inconclusive("%v", err)
		return r.Finish(nil, nil)
	}
	specs := c19Specs()
	specDir := filepath.Join(r.Scratch, "specs")
	for k, bs := range specs {
		_ = os.MkdirAll(filepath.Join(specDir, k), 0o755)
		_ = os.WriteFile(filepath.Join(specDir, k, "openapi.json"), bs, 0o644)
	}
	args := func(inv c19Inv, out string) []string {
		a := []string{"--file", filepath.Join(specDir, inv.Spec, "openapi.json"), "--out", out,
			fmt.Sprintf("--client=%v", inv.Client), fmt.Sprintf("--api-handler=%v", inv.API), fmt.Sprintf("--donotedit=%v", inv.DNE),
			"--config", filepath.Join(specDir, inv.Spec, ".goag.yaml")}
		if inv.Base != "" {
			a = append(a, "--basepath", inv.Base)
		}
		if inv.Package != "" {
			a = append(a, "--package", inv.Package) // "" = flag omitted: the CLI's default package name
		}
		return a
	}
	// base alphabet of the exhaustive part
	var base []c19Inv
	for _, s := range []string{"A", "B"} {
		for _, cl := range []bool{false, true} {
			for _, api := range []bool{true, false} {
				base = append(base, c19Inv{Spec: s, Client: cl, API: api, DNE: true, Package: "gen"})
			}
		}
	}
	var histories [][]c19Inv
	for _, a := range base {
		histories = append(histories, []c19Inv{a})
		for _, b := range base {
			histories = append(histories, []c19Inv{a, b})
			for _, c := range base {
				histories = append(histories, []c19Inv{a, b, c})
			}
		}
	}
	// all histories of length <= 2 with the do-not-edit header switched as well
	var base2 []c19Inv
	for _, b := range base {
		for _, dne := range []bool{true, false} {
			b2 := b
			b2.DNE = dne
			base2 = append(base2, b2)
		}
	}
	for _, a := range base2 {
		for _, b := range base2 {
			if a.DNE && b.DNE {
				continue // already enumerated above
			}
			histories = append(histories, []c19Inv{a, b})
		}
	}
	nExh := len(histories)
	nRand := 150
	if r.Thorough() {
		nRand = 2500
	}
	rng := rand.New(rand.NewSource(r.Seed))
	specKeys := []string{"A", "B", "C", "D", "E", "F", "G"}
	for i := 0; i < nRand; i++ {
		n := 4 + rng.Intn(5)
		var h []c19Inv
		for j := 0; j < n; j++ {
			inv := c19Inv{Spec: specKeys[rng.Intn(len(specKeys))], Client: rng.Intn(2) == 0, API: rng.Intn(4) != 0, DNE: rng.Intn(2) == 0, Package: "gen"}
			switch rng.Intn(8) {
			case 0:
				inv.Package = "other"
			case 1:
				inv.Package = "" // --package not given
			}
			inv.Base = []string{"", "", "/v1", "/v2"}[rng.Intn(4)]
			h = append(h, inv)
		}
		histories = append(histories, h)
	}
	// every spec with rendered components followed by the one whose components render nothing
	for _, first := range []string{"A", "C", "E"} {
		for _, cl := range []bool{true, false} {
			histories = append(histories, []c19Inv{{Spec: first, Client: cl, API: true, DNE: true, Package: "gen"}, {Spec: "G", Client: cl, API: true, DNE: true, Package: "gen"}},
				[]c19Inv{{Spec: first, Client: cl, API: true, DNE: false, Package: "gen"}, {Spec: "G", Client: !cl, API: true, DNE: false, Package: "gen"}, {Spec: "G", Client: cl, API: true, DNE: true, Package: "gen"}})
		}
	}
	// reference: single run of an invocation into an empty directory
	refMu := sync.Mutex{}
	refs := map[string]map[string]string{}
	reference := func(inv c19Inv) (map[string]string, error) {
		key := inv.String()
		refMu.Lock()
		if m, ok := refs[key]; ok {
			refMu.Unlock()
			return m, nil
		}
		refMu.Unlock()
		d, _ := os.MkdirTemp(r.Scratch, "ref-")
		out, err := core.RunCmd(r.Scratch, time.Minute, nil, cli, args(inv, d)...)
		if err != nil {
			return nil, fmt.Errorf("reference run failed: %v: %s", err, out)
		}
		m := snapshot(d)
		refMu.Lock()
		refs[key] = m
		refMu.Unlock()
		return m, nil
	}
	var mu sync.Mutex
	cliRuns := 0
	var samples []any
	ch := make(chan int)
	var wg sync.WaitGroup
	for w := 0; w < workers(); w++ {
		wg.Add(1)
		go func() {
			defer wg.Done()
			for hi := range ch {
				h := histories[hi]
				hid := historyID(h)
				d, _ := os.MkdirTemp(r.Scratch, "h-")
				for f, c := range c19UserFiles {
					_ = os.MkdirAll(filepath.Dir(filepath.Join(d, f)), 0o755)
					_ = os.WriteFile(filepath.Join(d, f), []byte(c), 0o644)
					old := time.Date(2020, 1, 2, 3, 4, 5, 0, time.UTC)
					_ = os.Chtimes(filepath.Join(d, f), old, old)
				}
				userBefore := snapshotUser(d)
				failed := false
				// every third history names the directory through a symbolic link (no
				// trailing slash), as a checkout under a linked workspace would
				outArg := d
				if hi%3 == 1 {
					link := d + "-link"
					if os.Symlink(d, link) == nil {
						outArg = link
					}
				}
				for _, inv := range h {
					out, err := core.RunCmd(r.Scratch, time.Minute, nil, cli, args(inv, outArg)...)
					if err != nil {
						r.Report(core.Violation{Case: hid, Class: "invocation-failed", Message: core.Trunc(out, 200), Input: hid})
						failed = true
						break
					}
				}
				mu.Lock()
				cliRuns += len(h)
				mu.Unlock()
				if failed {
					continue
				}
				last := h[len(h)-1]
				ref, err := reference(last)
				if err != nil {
					r.Inconclusive("%v", err)
					continue
				}
				got := snapshot(d)
				// owned files: exactly the reference set with the reference bytes
				for _, f := range c19Owned {
					switch {
					case ref[f] == "" && got[f] != "":
						r.Report(core.Violation{Case: hid, Class: "stale-file", Message: f + " is left over from an earlier invocation", Input: hid, Expected: keys(ref), Observed: keys(got)})
					case ref[f] != "" && got[f] == "":
						r.Report(core.Violation{Case: hid, Class: "missing-file", Message: f + " is missing after the last invocation", Input: hid, Expected: keys(ref), Observed: keys(got)})
					case ref[f] != got[f]:
						a, _ := os.ReadFile(filepath.Join(d, f))
						r.Report(core.Violation{Case: hid, Class: "content-differs", Message: f + " differs from a single run of the last invocation into an empty directory", Input: hid,
							Observed: map[string]any{"len": len(a), "tail": core.Trunc(tail(string(a), 200), 200)}})
					}
				}
				// nothing else appeared
				for f := range got {
					if _, user := c19UserFiles[f]; !user && !contains(c19Owned, f) {
						r.Report(core.Violation{Case: hid, Class: "unexpected-file", Message: f + " appeared in the output directory", Input: hid})
					}
				}
				// user files untouched (bytes and mtime)
				userAfter := snapshotUser(d)
				for f, v := range userBefore {
					if userAfter[f] != v {
						r.Report(core.Violation{Case: hid, Class: "user-file-touched", Message: f + " changed (content or mtime)", Input: hid, Expected: v, Observed: userAfter[f]})
					}
				}
				// idempotence: the last invocation once more
				if out, err := core.RunCmd(r.Scratch, time.Minute, nil, cli, args(last, d)...); err != nil {
					r.Report(core.Violation{Case: hid, Class: "invocation-failed", Message: "re-run: " + core.Trunc(out, 200), Input: hid})
				} else {
					again := snapshot(d)
					for _, f := range c19Owned {
						if again[f] != got[f] {
							r.Report(core.Violation{Case: hid, Class: "rerun-changes", Message: f + " changed when the same invocation was repeated", Input: hid})
						}
					}
				}
				mu.Lock()
				cliRuns++
				if len(samples) < 4 && hi%173 == 3 {
					samples = append(samples, map[string]any{"history": hid, "final_files": keys(got), "equals_single_run_of_last": true})
				}
				mu.Unlock()
				_ = os.RemoveAll(d)
			}
		}()
	}
	for i := range histories {
		ch <- i
	}
	close(ch)
	wg.Wait()
	// the same through --dir: every spec directory is an output directory of its own
	dirHistories := 0
	{
		mkRoot := func(name string) string {
			root := filepath.Join(r.Scratch, name)
			for _, k := range []string{"A", "C", "F"} {
				_ = os.MkdirAll(filepath.Join(root, "d"+k), 0o755)
				_ = os.WriteFile(filepath.Join(root, "d"+k, "openapi.json"), specs[k], 0o644)
				old := time.Date(2021, 1, 2, 3, 4, 5, 0, time.UTC)
				_ = os.Chtimes(filepath.Join(root, "d"+k, "openapi.json"), old, old)
			}
			return root
		}
		invs := [][]string{
			{"--package", "gen", "--spec", "openapi.json", "--client=true"},
			{"--package", "gen", "--spec", "openapi.json", "--client=false", "--basepath", "/v2", "--donotedit=false"},
			{"--package", "other", "--spec", "openapi.json", "--client=true", "--api-handler=false"},
		}
		for a := range invs {
			for b := range invs {
				if a == b {
					continue
				}
				hid := fmt.Sprintf("dir-mode/%d->%d", a, b)
				used, fresh := mkRoot(fmt.Sprintf("dirh-%d-%d", a, b)), mkRoot(fmt.Sprintf("dirf-%d-%d", a, b))
				ok := true
				for _, step := range []struct {
					root string
					inv  []string
				}{{used, invs[a]}, {used, invs[b]}, {fresh, invs[b]}} {
					if out, err := core.RunCmd(r.Scratch, time.Minute, nil, cli, append([]string{"--dir", step.root}, step.inv...)...); err != nil {
						r.Report(core.Violation{Case: hid, Class: "invocation-failed", Message: core.Trunc(out, 200), Input: hid})
						ok = false
						break
					}
				}
				cliRuns += 3
				dirHistories++
				if !ok {
					continue
				}
				for _, k := range []string{"A", "C", "F"} {
					got, want := snapshot(filepath.Join(used, "d"+k)), snapshot(filepath.Join(fresh, "d"+k))
					for f, v := range want {
						if got[f] != v {
							r.Report(core.Violation{Case: hid, Class: "content-differs", Message: "d" + k + "/" + f + " differs from a single --dir run of the last invocation into fresh directories", Input: hid})
						}
					}
					for f := range got {
						if _, okf := want[f]; !okf {
							r.Report(core.Violation{Case: hid, Class: "stale-file", Message: "d" + k + "/" + f + " is left over from an earlier invocation", Input: hid})
						}
					}
				}
				_ = os.RemoveAll(used)
				_ = os.RemoveAll(fresh)
			}
		}
	}
	// user directories named like files goag owns: whatever an invocation makes of
	// them (the unchanged tree refuses to run), what the user keeps inside stays
	userDirRuns := 0
	{
		for _, name := range c19Owned {
			for vi, inv := range [][]string{{"--client=true"}, {"--client=false"}, {"--client=true", "--api-handler=false"}} {
				d := filepath.Join(r.Scratch, fmt.Sprintf("userdir-%s-%d", name, vi))
				_ = os.MkdirAll(filepath.Join(d, name, "drafts"), 0o755)
				keep := map[string]string{filepath.Join(name, "NOTES.txt"): "mine\n", filepath.Join(name, "drafts", "draft.go"): "package drafts\n"}
				for f, v := range keep {
					_ = os.WriteFile(filepath.Join(d, f), []byte(v), 0o644)
				}
				sp := filepath.Join(d, "..", fmt.Sprintf("userdir-%s-%d.json", name, vi))
				_ = os.WriteFile(sp, specs["A"], 0o644)
				hid := fmt.Sprintf("user-directory/%s/%s", name, strings.Join(inv, " "))
				out, err := core.RunCmd(r.Scratch, time.Minute, nil, cli, append([]string{"--file", sp, "--out", d, "--package", "gen"}, inv...)...)
				userDirRuns++
				cliRuns++
				for f, v := range keep {
					if bs, rerr := os.ReadFile(filepath.Join(d, f)); rerr != nil || string(bs) != v {
						r.Report(core.Violation{Case: hid, Class: "user-file-touched", Message: fmt.Sprintf("%s, kept by the user inside a directory named %s, is gone or changed after an invocation (exit error: %v)", f, name, err), Input: hid, Observed: core.Trunc(out, 300)})
					}
				}
				_ = os.RemoveAll(d)
				_ = os.Remove(sp)
			}
		}
	}
	cov := map[string]any{
		"user_directory_runs": userDirRuns,
		"dir_mode_histories":  dirHistories,
		"evaluations":         len(histories),
		"distinct_nontrivial": len(histories) - len(base),
		"rule":                "one evaluation = one history of real CLI invocations into one directory holding user files, compared (names, sha256, user-file mtime) with a single run of its last invocation into an empty directory, then the last invocation repeated; distinct = histories of length >= 2; exhaustive part: all 584 histories of length <= 3 over {spec with / without components} x {client on/off} x {api-handler on/off}; random part: length 4-8 over 6 specs (longer/shorter outputs, one whose output does not format, one without operations), do-not-edit on/off, two package names, base path absent / v1 / v2",
		"samples":             samples,
		"exhaustive":          true,
		"exhaustive_space":    fmt.Sprintf("%d histories of length <= 3 over %d invocations", nExh, len(base)),
		"random_histories":    nRand,
		"cli_runs":            cliRuns,
		"user_files":          keysS(c19UserFiles),
	}
	return r.Finish(cov, []string{"goag-owned files are components.go, handler.go, router.go, spec_file.go, client.go"})
}

func historyID(h []c19Inv) string {
	var s []string
	for _, i := range h {
		s = append(s, i.String())
	}
	return strings.Join(s, " -> ")
}

func snapshot(dir string) map[string]string {
	out := map[string]string{}
	_ = filepath.Walk(dir, func(p string, info os.FileInfo, err error) error {
		if err != nil || info.IsDir() {
			return nil
		}
		rel, _ := filepath.Rel(dir, p)
		out[rel] = fileSum(p)
		return nil
	})
	return out
}

func snapshotUser(dir string) map[string]string {
	out := map[string]string{}
	for f := range c19UserFiles {
		st, err := os.Stat(filepath.Join(dir, f))
		if err != nil {
			out[f] = "missing"
			continue
		}
		out[f] = fileSum(filepath.Join(dir, f)) + "@" + st.ModTime().UTC().Format(time.RFC3339Nano)
	}
	return out
}

func keys(m map[string]string) []string {
	var ks []string
	for k := range m {
		ks = append(ks, k)
	}
	sort.Strings(ks)
	return ks
}

func keysS(m map[string]string) []string { return keys(m) }

func contains(xs []string, s string) bool {
	for _, x := range xs {
		if x == s {
			return true
		}
	}
	return false
}

func tail(s string, n int) string {
	if len(s) > n {
		return s[len(s)-n:]
	}
	return s
}
