package checks

import (
	"fmt"
	"os"
	"path/filepath"
	"sort"
	"strings"
	"sync"
	"time"

	"verif/core"
	"verif/specgen"
)

func init() { Registry["C12"] = C12 }

// C12: generation is deterministic. Observations: sha256 of every written
// file after (a) K runs in K fresh CLI processes, (b) K repetitions inside
// one harness process, (c) one run in a long-lived process that has
// generated many other specs before (both orders), compared per (case, file).
func C12(r *core.Run) int {
	vgen, err := r.BuildVgen()
	if err != nil {
		r.Inconclusive("%v", err)
		return r.Finish(nil, nil)
	}
	cli, err := r.BuildCLI()
	if err != nil {
		r.Inconclusive("%v", err)
		return r.Finish(nil, nil)
	}
	K := 8
	nCorpus := 120
	if r.Thorough() {
		K = 40
		nCorpus = 1200
	}
	fat := []specgen.Case{specgen.MapFat(8), specgen.MapFat(4), specgen.MapFat(6)}
	fat[2].Flags = specgen.Flags{Client: false, Cors: false, DoNotEdit: true}
	{
		// schemas carrying several vendor extensions at once (goag's own keys next
		// to other generators' spellings): maps again, so iteration order again
		d := specgen.NewDoc("ext")
		var ps specgen.L
		for i := 0; i < 10; i++ {
			n := fmt.Sprintf("T%c", 'A'+i)
			d.Comp("schemas", n, specgen.M{"type": "string", "x-goag-go-type": "pkg." + n, "x-go-type": "other." + n, "x-go-type-import": specgen.M{"path": "example.com/other"},
				"x-oapi-codegen-extra-tags": specgen.M{"db": n}, "x-goag-go-time-format": "2006", "x-go-name": "Go" + n, "x-order": i})
			ps = append(ps, specgen.ParamNode("p"+n, "query", i%2 == 0, specgen.Ref("schemas", n)))
		}
		d.Op("/t", "get", specgen.M{"parameters": ps})
		fat = append(fat, specgen.Case{ID: "ext-keys-fat", Family: "mapfat", Spec: d.Root, Flags: specgen.Flags{Client: true, DoNotEdit: true},
			CfgRaw: []byte("imports:\n  - value: example.com/verif/pkg\n"), Label: map[string]string{"set": "ext-keys-fat"}})
	}
	{
		// aliases inside reference cycles: what the loader leaves unresolved depends on
		// its map iteration order; goag's verdict and bytes must not
		d := specgen.NewDoc("aliascycle")
		for i := 2; i < 3; i++ { // one alias / target pair: whether the loader sees the alias first is a coin toss per load
			n := fmt.Sprintf("N%c", 'A'+i)
			// the alias is the public name; the node refers to its children through it
			d.Comp("schemas", n+"Alias", specgen.Ref("schemas", n+"Tree"))
			d.Comp("schemas", n+"Tree", specgen.Obj([]string{"label"}, specgen.M{"label": specgen.Prim("string", ""), "kids": specgen.Arr(specgen.Ref("schemas", n+"Alias")), "tag": specgen.Ref("schemas", "Label")}))
		}
		d.Comp("schemas", "Label", specgen.Obj(nil, specgen.M{"text": specgen.Prim("string", "")}))
		d.Comp("schemas", "Colour", specgen.Prim("string", ""))
		d.Comp("schemas", "Problem", specgen.Obj([]string{"message"}, specgen.M{"message": specgen.Prim("string", "")}))
		d.Op("/t", "get", specgen.M{"responses": specgen.M{"200": specgen.Resp("ok", specgen.Ref("schemas", "NCAlias")), "default": specgen.Resp("e", specgen.Ref("schemas", "Label"))}})
		fat = append(fat, specgen.Case{ID: "alias-cycles-fat", Family: "mapfat", Spec: d.Root, Flags: specgen.Flags{Client: true, DoNotEdit: true}, Label: map[string]string{"set": "alias-cycles-fat"}})
	}
	var corpus []specgen.Case
	corpus = append(corpus, Sample(specgen.MatrixCases(), nCorpus, r.Seed+3)...)
	corpus = append(corpus, Sample(specgen.ShapeCases(), nCorpus/4, r.Seed+4)...)
	corpus = append(corpus, specgen.UpstreamCases(core.RepoDir())...)
	corpus = append(corpus, specgen.FamilyCases(r.Seed, r.Thorough())...)
	AssignFlags(corpus, r.Seed, true)
	all := append(append([]specgen.Case{}, fat...), corpus...)

	// digests[case][file] -> set of sha256 -> where seen
	type where = []string
	digests := map[string]map[string]map[string]where{}
	var mu sync.Mutex
	add := func(c, f, sum, w string) {
		mu.Lock()
		defer mu.Unlock()
		if digests[c] == nil {
			digests[c] = map[string]map[string]where{}
		}
		if digests[c][f] == nil {
			digests[c][f] = map[string]where{}
		}
		digests[c][f][sum] = append(digests[c][f][sum], w)
	}
	keep := map[string]string{} // "case|file|sum" -> path of one instance
	remember := func(c, f, sum, path string) {
		mu.Lock()
		if _, ok := keep[c+"|"+f+"|"+sum]; !ok {
			keep[c+"|"+f+"|"+sum] = path
		}
		mu.Unlock()
	}

	// (b)+(c): in-process. Run 1: one single process, given order, with Repeat=K for the map-fat cases.
	rootA := filepath.Join(r.Scratch, "a")
	placedA, err := core.Place(rootA, all)
	if err != nil {
		r.Inconclusive("%v", err)
		return r.Finish(nil, nil)
	}
	jobsA := make([]core.Job, len(placedA))
	for i, p := range placedA {
		jobsA[i] = p.Job()
		if p.Case.Family == "mapfat" {
			jobsA[i].Repeat = K
			if p.Case.ID == "alias-cycles-fat" {
				// an order-dependent refusal shows in about one load of eight
				// (measured with seeded change C12k): 6K repetitions leave
				// (7/8)^48 < 0.2 % for a run that sees one verdict only
				jobsA[i].Repeat = 6 * K
			}
		}
	}
	resA := r.RunJobs(vgen, jobsA, 1, 20*time.Second)
	// Run 2: reverse order, 4 processes
	rootB := filepath.Join(r.Scratch, "b")
	placedB, _ := core.Place(rootB, all)
	jobsB := make([]core.Job, 0, len(placedB))
	for i := len(placedB) - 1; i >= 0; i-- {
		jobsB = append(jobsB, placedB[i].Job())
	}
	resB := r.RunJobs(vgen, jobsB, 4, 20*time.Second)
	generated := 0
	evals := 0
	for i, p := range placedA {
		ra, rb := resA[p.Case.ID], resB[p.Case.ID]
		mixed := false
		for _, ok := range ra.RepeatOK {
			if ok != ra.RepeatOK[0] {
				mixed = true
			}
		}
		if mixed {
			r.Report(core.Violation{Case: p.Case.ID, Class: "nondeterministic-verdict", Message: fmt.Sprintf("repeated runs of one invocation in one process did not all end alike (succeeded: %v)", ra.RepeatOK), Spec: string(p.Case.SpecBytes()), Flags: p.Case.Flags})
			continue
		}
		if ra.OK != rb.OK {
			r.Report(core.Violation{Case: p.Case.ID, Class: "nondeterministic-verdict", Message: fmt.Sprintf("same invocation succeeded in one process (%v) and failed in another (%v): %s | %s", ra.OK, rb.OK, ra.Err, rb.Err), Spec: string(p.Case.SpecBytes()), Flags: p.Case.Flags})
			continue
		}
		if !ra.OK {
			continue
		}
		generated++
		for f, s := range ra.Files {
			add(p.Case.ID, f, s, "inproc-single-process-forward")
			remember(p.Case.ID, f, s, filepath.Join(p.Out, f))
		}
		evals++
		for k, sums := range ra.RepeatSums {
			evals++
			for f, s := range sums {
				add(p.Case.ID, f, s, fmt.Sprintf("inproc-repeat-%d", k))
			}
		}
		for f, s := range rb.Files {
			add(p.Case.ID, f, s, "inproc-4-processes-reverse")
			remember(p.Case.ID, f, s, filepath.Join(placedB[i].Out, f))
		}
		evals++
	}
	// (a) fresh CLI processes: K per map-fat case, 2 per corpus case
	type cliJob struct {
		p core.Placed
		k int
	}
	var cj []cliJob
	for _, p := range placedA {
		if !resA[p.Case.ID].OK {
			continue
		}
		n := 2
		if p.Case.Family == "mapfat" {
			n = K
		}
		if !r.Thorough() && p.Case.Family != "mapfat" && p.Idx%3 != 0 {
			n = 2 // the second run goes into a directory with foreign files
		}
		for k := 0; k < n; k++ {
			cj = append(cj, cliJob{p, k})
		}
	}
	ch := make(chan cliJob)
	var wg sync.WaitGroup
	cliRuns := 0
	foreignCwd := filepath.Join(r.Scratch, "cwd-with-foreign-config")
	_ = os.MkdirAll(foreignCwd, 0o755)
	_ = os.WriteFile(filepath.Join(foreignCwd, ".goag.yaml"), []byte("cors:\n  enable: true\nmaybe:\n  type: example.com/other.Maybe\n"), 0o644)
	_ = os.WriteFile(filepath.Join(foreignCwd, "openapi.yaml"), []byte("openapi: 3.0.3\ninfo: {title: foreign, version: '1'}\npaths: {}\n"), 0o644)
	for w := 0; w < workers(); w++ {
		wg.Add(1)
		go func() {
			defer wg.Done()
			for j := range ch {
				p := j.p
				p.Out = filepath.Join(r.Scratch, "cli", fmt.Sprintf("%s-%d", filepath.Base(p.Out), j.k))
				where := fmt.Sprintf("cli-process-%d", j.k)
				if j.k == 1 {
					// the same invocation into a directory that already holds foreign files
					// (a user file importing packages under the names log / fmt, a test file)
					where = "cli-into-directory-with-foreign-files"
					_ = os.MkdirAll(p.Out, 0o755)
					for f, content := range c19UserFiles {
						if strings.Contains(f, "/") {
							continue
						}
						_ = os.WriteFile(filepath.Join(p.Out, f), []byte(content), 0o644)
					}
					if p.Idx%2 == 0 {
						// ... and the (much longer) output of an earlier invocation: the bytes
						// written are a function of this invocation, not of what was there
						where = "cli-into-directory-with-foreign-files-and-longer-earlier-output"
						stale := "package " + p.Pkg + "\n\n" + strings.Repeat("// left over from an earlier, longer generation\n", 4000)
						for _, f := range c19Owned {
							_ = os.WriteFile(filepath.Join(p.Out, f), []byte(stale), 0o644)
						}
					}
				}
				// the processes also differ in what the output must not depend on: the
				// local time zone (26 hours apart: always another local date), the locale
				env := []string{"TZ=Etc/GMT-14", "LC_ALL=C", "LANG=C"}
				if j.k%2 == 1 {
					env = []string{"TZ=Etc/GMT+12", "LC_ALL=en_US.UTF-8", "LANG=de_DE.UTF-8"}
				}
				// ... and the working directory: every path is given in full, so a config
				// file that happens to lie where the process was started is nobody's
				cwd := r.Scratch
				if j.k%2 == 1 {
					cwd = foreignCwd
				}
				out, err := core.RunCmd(cwd, time.Minute, env, cli, p.CLIArgs()...)
				if err != nil {
					r.Report(core.Violation{Case: p.Case.ID, Class: "nondeterministic-verdict", Message: "CLI failed where the in-process run succeeded: " + core.Trunc(out, 300), Spec: string(p.Case.SpecBytes()), Flags: p.Case.Flags})
					continue
				}
				es, _ := os.ReadDir(p.Out)
				for _, e := range es {
					if _, foreign := c19UserFiles[e.Name()]; foreign {
						continue
					}
					s := fileSum(filepath.Join(p.Out, e.Name()))
					add(p.Case.ID, e.Name(), s, where)
					remember(p.Case.ID, e.Name(), s, filepath.Join(p.Out, e.Name()))
				}
				mu.Lock()
				cliRuns++
				mu.Unlock()
			}
		}()
	}
	for _, j := range cj {
		ch <- j
	}
	close(ch)
	wg.Wait()
	evals += cliRuns

	// verdict
	nFiles := 0
	maxVariants := 1
	var samples []any
	for _, c := range core.SortedKeys(digests) {
		for _, f := range core.SortedKeys(digests[c]) {
			nFiles++
			vars := digests[c][f]
			// a file present in some runs and absent in others is also a difference
			if len(vars) > maxVariants {
				maxVariants = len(vars)
			}
			if len(vars) > 1 {
				sums := core.SortedKeys(vars)
				a := keep[c+"|"+f+"|"+sums[0]]
				b := keep[c+"|"+f+"|"+sums[1]]
				diff := ""
				if a != "" && b != "" {
					ab, _ := os.ReadFile(a)
					bb, _ := os.ReadFile(b)
					diff = firstDiff(string(ab), string(bb))
				}
				var ws []string
				for _, s := range sums {
					ws = append(ws, fmt.Sprintf("%s… seen in %d runs (%s)", s[:12], len(vars[s]), strings.Join(head(vars[s], 3), ",")))
				}
				spec := ""
				for _, cc := range all {
					if cc.ID == c {
						spec = string(cc.SpecBytes())
					}
				}
				r.Report(core.Violation{Case: c, Class: "nondeterministic-output", Message: fmt.Sprintf("%s: %d different contents for one invocation", f, len(vars)),
					Observed: map[string]any{"variants": ws, "first_difference": diff}, Expected: "one sha256 per file over all runs", Spec: spec})
			}
		}
		if len(samples) < 3 {
			fs := map[string]string{}
			for f, v := range digests[c] {
				for s, w := range v {
					fs[f] = fmt.Sprintf("%s… x%d runs", s[:12], len(w))
				}
			}
			samples = append(samples, map[string]any{"case": c, "files": fs})
		}
	}
	if generated < 50 {
		r.Inconclusive("only %d cases generated", generated)
	}
	nfat := 8
	cov := map[string]any{
		"evaluations":         evals,
		"distinct_nontrivial": generated,
		"rule":                "one evaluation = one generator run whose files were hashed; distinct = distinct invocations (spec+flags) that generated successfully and were run at least 3 times (fresh CLI process, single long-lived process forward, 4 processes in reverse order); map-fat invocations additionally K times in K fresh CLI processes and K times inside one process",
		"samples":             samples,
		"K":                   K,
		"mapfat_entries":      []int{8, 4, 6},
		"files_compared":      nFiles,
		"max_variants_seen":   maxVariants,
		"cli_runs":            cliRuns,
		"miss_probability":    fmt.Sprintf("an unsorted range over a map with n=%d entries that influences the output survives K=%d fresh processes with probability about 8^-(K-1) (Go randomises the start slot of a one-bucket map)", nfat, K),
	}
	return r.Finish(cov, []string{"sha256 over file bytes; output directory names differ between runs and must not influence the content"})
}

func head(xs []string, n int) []string {
	sort.Strings(xs)
	if len(xs) > n {
		return xs[:n]
	}
	return xs
}
