package core

// Per-run Go build cache.
//
// Every check compiles hundreds to thousands of generated packages that are
// never seen again; left in the default build cache they add several GB per
// sweep (Go trims entries only after five days). Each run therefore gets a
// private GOCACHE inside its scratch directory, removed with it. To avoid
// recompiling the standard library per run, the private cache starts as a
// hard-link copy of a small base cache (std, std under -race, the driver
// packages, the generator) which is built once per Go version under a file
// lock and never written to afterwards.

import (
	"fmt"
	"io"
	"io/fs"
	"os"
	"os/exec"
	"path/filepath"
	"strings"
	"syscall"
	"time"
)

func baseCacheDir() string {
	root := os.Getenv("VERIF_CACHE_BASE")
	if root == "" {
		c, err := os.UserCacheDir()
		if err != nil {
			c = filepath.Join(os.TempDir(), ".cache")
		}
		root = filepath.Join(c, "verif-gocache")
	}
	ver := "go"
	if out, err := exec.Command("go", "env", "GOVERSION").Output(); err == nil {
		ver = strings.TrimSpace(string(out))
	}
	return filepath.Join(root, ver)
}

// ensureBaseCache builds the base cache if it is not there yet.
func ensureBaseCache() (string, error) {
	base := baseCacheDir()
	ready := filepath.Join(base, "verif-ready")
	if _, err := os.Stat(ready); err == nil {
		return base, nil
	}
	if err := os.MkdirAll(base, 0o755); err != nil {
		return "", err
	}
	lock, err := os.OpenFile(filepath.Join(filepath.Dir(base), "lock"), os.O_CREATE|os.O_RDWR, 0o644)
	if err != nil {
		return "", err
	}
	defer lock.Close()
	if err := syscall.Flock(int(lock.Fd()), syscall.LOCK_EX); err != nil {
		return "", err
	}
	defer syscall.Flock(int(lock.Fd()), syscall.LOCK_UN)
	if _, err := os.Stat(ready); err == nil {
		return base, nil
	}
	env := []string{"GOCACHE=" + base}
	steps := [][]string{
		{VerifDir, "go", "build", "std"},
		{VerifDir, "go", "build", "-race", "std"},
		{VerifDir, "go", "build", "./..."},
		{VerifDir, "go", "build", "-race", "./drv/...", "./oas/..."},
		{VerifDir, "go", "build", "-tags", "verif", "-o", os.DevNull, "./cmd/vgen"},
	}
	for i, s := range steps {
		// std (the first two steps) is what makes the base useful; the rest
		// only saves a few seconds and may fail on a tree that does not build
		if out, err := RunCmd(s[0], 15*time.Minute, env, s[1], s[2:]...); err != nil && i < 2 {
			return "", fmt.Errorf("warm base cache (%v): %v\n%s", s[1:], err, out)
		}
	}
	if err := os.WriteFile(ready, []byte(time.Now().UTC().Format(time.RFC3339)+"\n"), 0o644); err != nil {
		return "", err
	}
	return base, nil
}

// SetupGoCache gives the run a private GOCACHE seeded from the base cache and
// exports it to every child process. On any failure the default cache stays
// in use: the cache is an optimisation, never part of a verdict.
func (r *Run) SetupGoCache() {
	if os.Getenv("VERIF_SHARED_GOCACHE") != "" {
		return
	}
	base, err := ensureBaseCache()
	if err != nil {
		r.Note("base build cache unavailable (%v); using the default GOCACHE", err)
		return
	}
	dst := filepath.Join(r.Scratch, "gocache")
	if err := linkTree(base, dst); err != nil {
		r.Note("cannot seed the private build cache (%v); using the default GOCACHE", err)
		_ = os.RemoveAll(dst)
		return
	}
	_ = os.Remove(filepath.Join(dst, "trim.txt"))
	os.Setenv("GOCACHE", dst)
}

func linkTree(src, dst string) error {
	return filepath.WalkDir(src, func(p string, d fs.DirEntry, err error) error {
		if err != nil {
			return err
		}
		rel, _ := filepath.Rel(src, p)
		to := filepath.Join(dst, rel)
		if d.IsDir() {
			return os.MkdirAll(to, 0o755)
		}
		if !d.Type().IsRegular() {
			return nil
		}
		// index entries (-a) are rewritten in place by the go command when an
		// action is redone; copy those, link the content-addressed rest
		if strings.HasSuffix(p, "-a") || os.Link(p, to) != nil {
			return copyFile(p, to)
		}
		return nil
	})
}

func copyFile(src, dst string) error {
	in, err := os.Open(src)
	if err != nil {
		return err
	}
	defer in.Close()
	out, err := os.Create(dst)
	if err != nil {
		return err
	}
	if _, err := io.Copy(out, in); err != nil {
		out.Close()
		return err
	}
	return out.Close()
}
