package core

import (
	"bytes"
	"encoding/json"
	"fmt"
	"go/ast"
	"go/parser"
	"go/token"
	"os"
	"path/filepath"
	"sort"
	"strings"
)

// WriteRegistry scans the Go files goag wrote into dir and adds
// zz_verif_test.go: a mechanical list of every top-level non-generic type,
// func, var and const of the package, handed to the reflective driver.
// The files goag wrote are not touched.
func WriteRegistry(dir, pkg string) error {
	fset := token.NewFileSet()
	es, err := os.ReadDir(dir)
	if err != nil {
		return err
	}
	var types, funcs, vars, consts []string
	for _, e := range es {
		n := e.Name()
		if e.IsDir() || !strings.HasSuffix(n, ".go") || strings.HasSuffix(n, "_test.go") {
			continue
		}
		f, err := parser.ParseFile(fset, filepath.Join(dir, n), nil, parser.SkipObjectResolution)
		if err != nil {
			return fmt.Errorf("parse %s: %w", n, err)
		}
		for _, d := range f.Decls {
			switch t := d.(type) {
			case *ast.FuncDecl:
				if t.Recv != nil || t.Type.TypeParams != nil || t.Name.Name == "_" || t.Name.Name == "init" {
					continue
				}
				funcs = append(funcs, t.Name.Name)
			case *ast.GenDecl:
				for _, s := range t.Specs {
					switch sp := s.(type) {
					case *ast.TypeSpec:
						if sp.TypeParams != nil || sp.Name.Name == "_" {
							continue
						}
						types = append(types, sp.Name.Name)
					case *ast.ValueSpec:
						for _, id := range sp.Names {
							if id.Name == "_" {
								continue
							}
							if t.Tok == token.CONST {
								consts = append(consts, id.Name)
							} else {
								vars = append(vars, id.Name)
							}
						}
					}
				}
			}
		}
	}
	sort.Strings(types)
	sort.Strings(funcs)
	sort.Strings(vars)
	sort.Strings(consts)
	var b bytes.Buffer
	fmt.Fprintf(&b, "package %s\n\nimport (\n\t\"reflect\"\n\t\"testing\"\n\n\t\"verif/drv\"\n)\n\n", pkg)
	b.WriteString("var verifRegistry = drv.Registry{\n\tTypes: map[string]reflect.Type{\n")
	for _, t := range types {
		fmt.Fprintf(&b, "\t\t%q: reflect.TypeOf((*%s)(nil)).Elem(),\n", t, t)
	}
	b.WriteString("\t},\n\tFuncs: map[string]any{\n")
	for _, f := range funcs {
		fmt.Fprintf(&b, "\t\t%q: %s,\n", f, f)
	}
	b.WriteString("\t},\n\tVars: map[string]any{\n")
	for _, v := range vars {
		fmt.Fprintf(&b, "\t\t%q: &%s,\n", v, v)
	}
	b.WriteString("\t},\n\tConsts: map[string]any{\n")
	for _, c := range consts {
		fmt.Fprintf(&b, "\t\t%q: %s,\n", c, c)
	}
	b.WriteString("\t},\n}\n\nfunc TestVerif(t *testing.T) { drv.Main(t, verifRegistry) }\n\nfunc FuzzVerif(f *testing.F) { drv.FuzzMain(f, verifRegistry) }\n")
	return os.WriteFile(filepath.Join(dir, "zz_verif_test.go"), b.Bytes(), 0o644)
}

// DriverCase is what the driver reads from verif_case.json in its package dir.
type DriverCase struct {
	ID       string         `json:"id"`
	Modes    []string       `json:"modes"`
	Seed     int64          `json:"seed"`
	Tier     string         `json:"tier"`
	SpecFile string         `json:"spec_file"`
	SpecExt  string         `json:"spec_ext"`
	BasePath string         `json:"basepath_flag"`
	Client   bool           `json:"client"`
	Cors     bool           `json:"cors"`
	SpecName string         `json:"spec_name"`
	Params   map[string]any `json:"params,omitempty"`
	Aux      map[string]any `json:"aux,omitempty"`
}

func WriteDriverCase(dir string, dc DriverCase) error {
	bs, _ := json.MarshalIndent(dc, "", " ")
	return os.WriteFile(filepath.Join(dir, "verif_case.json"), bs, 0o644)
}
