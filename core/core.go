// Package core holds what every property check shares: scratch handling,
// child processes, the vgen pool, evidence files, known-finding matching and
// violation / replay bookkeeping.
package core

import (
	"bufio"
	"bytes"
	"context"
	"encoding/json"
	"fmt"
	"os"
	"os/exec"
	"path/filepath"
	"regexp"
	"sort"
	"strconv"
	"strings"
	"sync"
	"time"

	"verif/specgen"
)

const VerifDir = "/verif"

// RepoDir is the goag checkout under test.
func RepoDir() string {
	if v := os.Getenv("VERIF_REPO"); v != "" {
		return v
	}
	return "/repo"
}

// OutDir is where evidence and replay files go: /verif, or VERIF_OUT for
// self-tests that must not overwrite the evidence of the real tree.
func OutDir() string {
	if v := os.Getenv("VERIF_OUT"); v != "" {
		return v
	}
	return VerifDir
}

func Seed() int64 {
	if v := os.Getenv("VERIF_SEED"); v != "" {
		if n, err := strconv.ParseInt(v, 10, 64); err == nil {
			return n
		}
	}
	return 1
}

func GoEnv() []string {
	env := os.Environ()
	env = append(env, "GOFLAGS=-mod=mod", "GOPROXY=off", "GOSUMDB=off", "GOTOOLCHAIN=local")
	return env
}

// ---- run context ------------------------------------------------------

type Run struct {
	Prop    string
	Tier    string
	Seed    int64
	Scratch string
	Start   time.Time

	mu         sync.Mutex
	Violations []Violation
	Known      map[string]int // known-finding id -> observations
	KF         *KnownFindings
	Notes      []string
	Inconcl    []string
}

type Violation struct {
	Property string `json:"property"`
	Case     string `json:"case"`
	Class    string `json:"class"`
	Message  string `json:"message"`
	Input    any    `json:"input,omitempty"`
	Expected any    `json:"expected,omitempty"`
	Observed any    `json:"observed,omitempty"`
	Spec     string `json:"spec,omitempty"`
	Flags    any    `json:"flags,omitempty"`
	Seed     int64  `json:"seed"`
	Tier     string `json:"tier"`
	RepoHead string `json:"repo_head,omitempty"`
}

func NewRun(prop, tier string) (*Run, error) {
	base := os.Getenv("VERIF_SCRATCH")
	if base == "" {
		base = os.TempDir()
	}
	dir, err := os.MkdirTemp(base, "verif-"+prop+"-")
	if err != nil {
		return nil, err
	}
	kf, err := LoadKnownFindings(filepath.Join(VerifDir, "known_findings.json"))
	if err != nil {
		return nil, err
	}
	r := &Run{Prop: prop, Tier: tier, Seed: Seed(), Scratch: dir, Start: time.Now(), Known: map[string]int{}, KF: kf}
	r.SetupGoCache()
	return r, nil
}

func (r *Run) Cleanup() {
	if os.Getenv("VERIF_KEEP") != "" {
		fmt.Println("scratch kept:", r.Scratch)
		return
	}
	// the module cache marks nothing read-only here, plain removal works
	_ = os.RemoveAll(r.Scratch)
}

func (r *Run) Thorough() bool { return r.Tier == "thorough" }

func (r *Run) Note(format string, a ...any) {
	r.mu.Lock()
	r.Notes = append(r.Notes, fmt.Sprintf(format, a...))
	r.mu.Unlock()
}

func (r *Run) Inconclusive(format string, a ...any) {
	r.mu.Lock()
	r.Inconcl = append(r.Inconcl, fmt.Sprintf(format, a...))
	r.mu.Unlock()
}

var posRe = regexp.MustCompile(`([A-Za-z0-9_./-]+\.go):\d+(:\d+)?`)

// NormMessage strips file positions and scratch paths from a tool message.
func NormMessage(s string) string {
	s = posRe.ReplaceAllString(s, "$1")
	return strings.TrimSpace(s)
}

// Report records a violation unless it matches a known finding.
func (r *Run) Report(v Violation) {
	v.Property = r.Prop
	v.Seed = r.Seed
	v.Tier = r.Tier
	r.mu.Lock()
	defer r.mu.Unlock()
	if id := r.KF.Match(v); id != "" {
		r.Known[id]++
		return
	}
	r.Violations = append(r.Violations, v)
}

// ---- known findings ---------------------------------------------------

type KFEntry struct {
	Status   string `json:"status"` // known | fixed
	Property string `json:"property"`
	ID       string `json:"id,omitempty"`
	What     string `json:"what"`
	Commit   string `json:"commit,omitempty"`
	Match    *struct {
		Case     string `json:"case,omitempty"`      // regexp on the case id (anchored)
		CaseList string `json:"case_list,omitempty"` // file under /verif listing exact case ids ("#alt" suffix ignored)
		Class   string `json:"class"`   // exact
		Message string `json:"message"` // regexp on the normalised message (unanchored)
	} `json:"match,omitempty"`
	Witness string `json:"witness,omitempty"`
	caseRe  *regexp.Regexp
	msgRe   *regexp.Regexp
	caseSet map[string]bool
	classRe *regexp.Regexp
}

type KnownFindings struct {
	Version int       `json:"version"`
	Entries []KFEntry `json:"entries"`
}

func LoadKnownFindings(path string) (*KnownFindings, error) {
	kf := &KnownFindings{Version: 1}
	bs, err := os.ReadFile(path)
	if err != nil {
		if os.IsNotExist(err) {
			return kf, nil
		}
		return nil, err
	}
	if err := json.Unmarshal(bs, kf); err != nil {
		return nil, fmt.Errorf("known_findings.json: %w", err)
	}
	for i := range kf.Entries {
		e := &kf.Entries[i]
		if e.Status != "known" || e.Match == nil {
			continue
		}
		if e.Match.Case != "" {
			e.caseRe, err = regexp.Compile("^(?:" + e.Match.Case + ")$")
			if err != nil {
				return nil, fmt.Errorf("known finding %s: %w", e.ID, err)
			}
		}
		if e.Match.CaseList != "" {
			lbs, lerr := os.ReadFile(filepath.Join(VerifDir, e.Match.CaseList))
			if lerr != nil {
				return nil, fmt.Errorf("known finding %s: %w", e.ID, lerr)
			}
			e.caseSet = map[string]bool{}
			for _, l := range strings.Split(string(lbs), "\n") {
				if l = strings.TrimSpace(l); l != "" {
					e.caseSet[l] = true
				}
			}
		}
		if strings.ContainsAny(e.Match.Class, "|(*") {
			e.classRe, err = regexp.Compile("^(?:" + e.Match.Class + ")$")
			if err != nil {
				return nil, fmt.Errorf("known finding %s: %w", e.ID, err)
			}
		}
		e.msgRe, err = regexp.Compile(e.Match.Message)
		if err != nil {
			return nil, fmt.Errorf("known finding %s: %w", e.ID, err)
		}
	}
	return kf, nil
}

// Match returns the id of the known finding that lists this violation.
func (kf *KnownFindings) Match(v Violation) string {
	for i := range kf.Entries {
		e := &kf.Entries[i]
		if e.Status != "known" || e.Match == nil || e.Property != v.Property {
			continue
		}
		if e.Match.Class != v.Class && (e.classRe == nil || !e.classRe.MatchString(v.Class)) {
			continue
		}
		okCase := false
		if e.caseRe != nil && e.caseRe.MatchString(v.Case) {
			okCase = true
		}
		if e.caseSet != nil && e.caseSet[strings.TrimSuffix(v.Case, "#alt")] {
			okCase = true
		}
		if !okCase {
			continue
		}
		if !e.msgRe.MatchString(v.Message) {
			continue
		}
		return e.ID
	}
	return ""
}

// ---- finishing: evidence, verdict ------------------------------------

type Evidence struct {
	PropertyID  string         `json:"property_id"`
	Tier        string         `json:"tier"`
	Seed        int64          `json:"seed"`
	Level       string         `json:"level"`
	Coverage    map[string]any `json:"coverage"`
	Assumptions []string       `json:"assumptions,omitempty"`
	WallS       float64        `json:"wall_s"`
	Violations  int            `json:"violations"`
}

func RepoHead() string {
	out, err := exec.Command("git", "-C", RepoDir(), "rev-parse", "--short", "HEAD").Output()
	if err != nil {
		return ""
	}
	return strings.TrimSpace(string(out))
}

// Finish writes the evidence file, prints KNOWN-FINDING / VIOLATION /
// INCONCLUSIVE lines and returns the process exit code.
func (r *Run) Finish(cov map[string]any, assumptions []string) int {
	r.mu.Lock()
	defer r.mu.Unlock()
	if cov == nil {
		cov = map[string]any{}
	}
	// known findings
	kfObserved := map[string]int{}
	for _, e := range r.KF.Entries {
		if e.Property != r.Prop || e.Status != "known" {
			continue
		}
		n := r.Known[e.ID]
		kfObserved[e.ID] = n
		if n > 0 {
			fmt.Printf("KNOWN-FINDING: property=%s %s [%s] (observed %d times)\n", r.Prop, e.What, e.ID, n)
		} else {
			fmt.Printf("KNOWN-FINDING-NOT-REPRODUCED: property=%s %s [%s]\n", r.Prop, e.What, e.ID)
		}
	}
	cov["known_findings_observed"] = kfObserved
	if l, ok := cov["samples"].([]any); !ok || len(l) == 0 {
		// evidence must show at least one explored case
		cov["samples"] = []any{map[string]any{"note": "no sample recorded by this run"}}
		r.Inconcl = append(r.Inconcl, "the run recorded no sample case")
	}
	if len(r.Notes) > 0 {
		cov["notes"] = r.Notes
	}
	if len(r.Inconcl) > 0 {
		cov["inconclusive"] = r.Inconcl
	}
	head := RepoHead()
	// violations -> replay files
	replayDir := filepath.Join(OutDir(), "replays", r.Prop)
	var vsum []any
	seen := map[string]bool{}
	nprinted := 0
	for i, v := range r.Violations {
		v.RepoHead = head
		key := v.Case + "|" + v.Class + "|" + v.Message
		if seen[key] {
			continue
		}
		seen[key] = true
		_ = os.MkdirAll(replayDir, 0o755)
		name := fmt.Sprintf("%s-%s-seed%d-%03d.json", r.Prop, r.Tier, r.Seed, i)
		p := filepath.Join(replayDir, name)
		bs, _ := json.MarshalIndent(v, "", " ")
		_ = os.WriteFile(p, bs, 0o644)
		if nprinted < 40 {
			fmt.Printf("VIOLATION property=%s replay=%s\n", r.Prop, p)
			fmt.Printf("  case=%s class=%s message=%s\n", v.Case, v.Class, trunc(v.Message, 300))
			nprinted++
		}
		if len(vsum) < 10 {
			vsum = append(vsum, map[string]any{"case": v.Case, "class": v.Class, "message": trunc(v.Message, 300), "replay": p})
		}
	}
	if len(seen) > nprinted {
		fmt.Printf("  ... and %d more distinct violations (see %s)\n", len(seen)-nprinted, replayDir)
	}
	if len(vsum) > 0 {
		cov["violation_samples"] = vsum
	}
	ev := Evidence{
		PropertyID: r.Prop, Tier: r.Tier, Seed: r.Seed, Level: "exploration",
		Coverage: cov, Assumptions: assumptions,
		WallS: time.Since(r.Start).Seconds(), Violations: len(seen),
	}
	cov["repo_head"] = head
	bs, _ := json.MarshalIndent(ev, "", " ")
	evdir := filepath.Join(OutDir(), "evidence")
	_ = os.MkdirAll(evdir, 0o755)
	if err := os.WriteFile(filepath.Join(evdir, r.Prop+".json"), append(bs, '\n'), 0o644); err != nil {
		fmt.Println("cannot write evidence:", err)
		return 3
	}
	if len(seen) > 0 {
		return 1
	}
	if len(r.Inconcl) > 0 {
		for _, s := range r.Inconcl {
			fmt.Printf("INCONCLUSIVE property=%s reason=%s\n", r.Prop, s)
		}
		return 2
	}
	fmt.Printf("OK property=%s tier=%s seed=%d evaluations=%v distinct=%v wall=%.1fs\n", r.Prop, r.Tier, r.Seed, cov["evaluations"], cov["distinct_nontrivial"], ev.WallS)
	return 0
}

func trunc(s string, n int) string {
	if len(s) > n {
		return s[:n] + "…"
	}
	return s
}

func Trunc(s string, n int) string { return trunc(s, n) }

// ---- child processes --------------------------------------------------

// RunCmd runs a command with the Go environment and returns combined output.
func RunCmd(dir string, timeout time.Duration, extraEnv []string, name string, args ...string) (string, error) {
	ctx, cancel := context.WithTimeout(context.Background(), timeout)
	defer cancel()
	cmd := exec.CommandContext(ctx, name, args...)
	cmd.Dir = dir
	cmd.Env = append(GoEnv(), extraEnv...)
	var buf bytes.Buffer
	cmd.Stdout = &buf
	cmd.Stderr = &buf
	err := cmd.Run()
	if ctx.Err() == context.DeadlineExceeded {
		return buf.String(), fmt.Errorf("timeout after %s", timeout)
	}
	return buf.String(), err
}

// runWithJobWatchdog runs the batch process and kills it when the marker file
// (the id of the job in progress, rewritten by the child before every job)
// has named the same job for longer than stall: a generation that does not
// terminate is then attributed to that job instead of to the whole batch's
// far longer deadline.
func runWithJobWatchdog(dir string, timeout, stall time.Duration, marker string, name string, args ...string) (string, error) {
	ctx, cancel := context.WithTimeout(context.Background(), timeout)
	defer cancel()
	cmd := exec.CommandContext(ctx, name, args...)
	cmd.Dir = dir
	cmd.Env = GoEnv()
	var buf bytes.Buffer
	cmd.Stdout = &buf
	cmd.Stderr = &buf
	if err := cmd.Start(); err != nil {
		return "", err
	}
	done := make(chan error, 1)
	go func() { done <- cmd.Wait() }()
	last, since := "", time.Now()
	tick := time.NewTicker(500 * time.Millisecond)
	defer tick.Stop()
	for {
		select {
		case err := <-done:
			if ctx.Err() == context.DeadlineExceeded {
				return buf.String(), fmt.Errorf("timeout after %s", timeout)
			}
			return buf.String(), err
		case <-tick.C:
			bs, _ := os.ReadFile(marker)
			if cur := string(bs); cur != last {
				last, since = cur, time.Now()
			} else if cur != "" && time.Since(since) > stall {
				_ = cmd.Process.Kill()
				<-done
				return buf.String(), fmt.Errorf("job %s did not finish within %s (process killed)", cur, stall)
			}
		}
	}
}

// BuildVgen builds the in-process harness from the current /repo tree.
func (r *Run) BuildVgen() (string, error) {
	bin := filepath.Join(r.Scratch, "vgen")
	args := []string{"build", "-tags", "verif", "-o", bin}
	if RepoDir() != "/repo" {
		// VERIF_REPO (self-tests on a scratch worktree): same module file with
		// the replace directive pointing at that tree
		mod, err := os.ReadFile(filepath.Join(VerifDir, "go.mod"))
		if err != nil {
			return "", err
		}
		alt := strings.Replace(string(mod), "replace github.com/vkd/goag => /repo", "replace github.com/vkd/goag => "+RepoDir(), 1)
		modfile := filepath.Join(r.Scratch, "vgen.mod")
		if err := os.WriteFile(modfile, []byte(alt), 0o644); err != nil {
			return "", err
		}
		if sum, err := os.ReadFile(filepath.Join(VerifDir, "go.sum")); err == nil {
			_ = os.WriteFile(filepath.Join(r.Scratch, "vgen.sum"), sum, 0o644)
		}
		args = append(args, "-modfile="+modfile)
	}
	args = append(args, "./cmd/vgen")
	out, err := RunCmd(VerifDir, 10*time.Minute, nil, "go", args...)
	if err != nil {
		return "", fmt.Errorf("build vgen: %v\n%s", err, out)
	}
	return bin, nil
}

// BuildCLI builds the real goag CLI (no tag) from the current /repo tree.
func (r *Run) BuildCLI() (string, error) {
	bin := filepath.Join(r.Scratch, "goag")
	out, err := RunCmd(RepoDir(), 10*time.Minute, nil, "go", "build", "-o", bin, "./cmd/goag")
	if err != nil {
		return "", fmt.Errorf("build goag cli: %v\n%s", err, out)
	}
	return bin, nil
}

// ---- vgen pool --------------------------------------------------------

type Job struct {
	ID        string `json:"id"`
	Mode      string `json:"mode,omitempty"`
	Spec      string `json:"spec"`
	Out       string `json:"out"`
	Package   string `json:"package,omitempty"`
	BasePath  string `json:"basepath,omitempty"`
	Cfg       string `json:"cfg,omitempty"`
	SpecName  string `json:"spec_name,omitempty"`
	Client    bool   `json:"client,omitempty"`
	NoAPI     bool   `json:"no_api,omitempty"`
	DoNotEdit bool   `json:"donotedit,omitempty"`
	RawB64    string `json:"raw_b64,omitempty"`
	Repeat    int    `json:"repeat,omitempty"`
}

type Result struct {
	ID         string              `json:"id"`
	OK         bool                `json:"ok"`
	Err        string              `json:"err,omitempty"`
	Panic      string              `json:"panic,omitempty"`
	Stack      string              `json:"stack,omitempty"`
	LoadErr    string              `json:"load_err,omitempty"`
	LoadPanic  string              `json:"load_panic,omitempty"`
	Log        string              `json:"log,omitempty"`
	Templates  []string            `json:"templates,omitempty"`
	Files      map[string]string   `json:"files,omitempty"`
	RepeatSums []map[string]string `json:"repeat_sums,omitempty"`
	RepeatOK   []bool              `json:"repeat_ok,omitempty"`
	DurUS      int64               `json:"dur_us"`
	// Fatal is set by the pool when the vgen process died on this job.
	Fatal string `json:"fatal,omitempty"`
}

// RunJobs distributes jobs over `workers` vgen processes. A process-fatal
// crash is attributed to the job named in the marker file, the rest of that
// worker's jobs are re-run in a fresh process.
func (r *Run) RunJobs(vgen string, jobs []Job, workers int, perJobTimeout time.Duration) map[string]Result {
	if workers < 1 {
		workers = 1
	}
	results := map[string]Result{}
	var mu sync.Mutex
	var wg sync.WaitGroup
	chunks := make([][]Job, workers)
	for i, j := range jobs {
		chunks[i%workers] = append(chunks[i%workers], j)
	}
	for w := 0; w < workers; w++ {
		if len(chunks[w]) == 0 {
			continue
		}
		wg.Add(1)
		go func(w int, mine []Job) {
			defer wg.Done()
			round := 0
			stalls := 0
			for len(mine) > 0 {
				round++
				jf := filepath.Join(r.Scratch, fmt.Sprintf("jobs-%d-%d.jsonl", w, round))
				rf := filepath.Join(r.Scratch, fmt.Sprintf("res-%d-%d.jsonl", w, round))
				mf := filepath.Join(r.Scratch, fmt.Sprintf("marker-%d-%d", w, round))
				var buf bytes.Buffer
				for _, j := range mine {
					bs, _ := json.Marshal(j)
					buf.Write(bs)
					buf.WriteByte('\n')
				}
				_ = os.WriteFile(jf, buf.Bytes(), 0o644)
				timeout := time.Duration(len(mine))*perJobTimeout + 30*time.Second
				// once this worker has seen jobs that do not terminate, the next ones get
				// less patience (a generation takes milliseconds; the verdict is already
				// a violation)
				stall := perJobTimeout >> uint(stalls)
				if stall < 2*time.Second {
					stall = 2 * time.Second
				}
				out, err := runWithJobWatchdog(r.Scratch, timeout, stall, mf, vgen, jf, rf, mf)
				if err != nil && strings.Contains(err.Error(), "did not finish within") && stalls < 8 {
					stalls++
				}
				done := map[string]bool{}
				if f, ferr := os.Open(rf); ferr == nil {
					sc := bufio.NewScanner(f)
					sc.Buffer(make([]byte, 1<<20), 1<<28)
					for sc.Scan() {
						var res Result
						if json.Unmarshal(sc.Bytes(), &res) == nil {
							mu.Lock()
							results[res.ID] = res
							mu.Unlock()
							done[res.ID] = true
						}
					}
					f.Close()
				}
				var rest []Job
				for _, j := range mine {
					if !done[j.ID] {
						rest = append(rest, j)
					}
				}
				if len(rest) == 0 {
					break
				}
				// the process died: blame the marker job
				culprit := ""
				if bs, merr := os.ReadFile(mf); merr == nil {
					culprit = string(bs)
				}
				if culprit == "" {
					culprit = rest[0].ID
				}
				msg := fmt.Sprintf("vgen died: %v\n%s", err, trunc(out, 4000))
				mu.Lock()
				results[culprit] = Result{ID: culprit, Fatal: msg}
				mu.Unlock()
				var next []Job
				for _, j := range rest {
					if j.ID != culprit {
						next = append(next, j)
					}
				}
				mine = next
				os.Remove(jf)
				os.Remove(rf)
			}
		}(w, chunks[w])
	}
	wg.Wait()
	return results
}

// ---- case materialisation --------------------------------------------

// Placed is a case written to disk: spec file, optional config, output dir.
type Placed struct {
	Case specgen.Case
	Idx  int
	Spec string // spec file path
	Cfg  string // config path ("" none)
	Out  string // output dir (package dir)
	Pkg  string // package name
}

// Place writes the spec (and config) files of the cases beneath root:
// root/specs/cNNNN/openapi.json, root/g/cNNNN/ as output directory.
func Place(root string, cases []specgen.Case) ([]Placed, error) {
	out := make([]Placed, 0, len(cases))
	for i, c := range cases {
		name := fmt.Sprintf("c%05d", i)
		sd := filepath.Join(root, "specs", name)
		if err := os.MkdirAll(sd, 0o755); err != nil {
			return nil, err
		}
		ext := c.Ext
		if ext == "" {
			ext = ".json"
		}
		sp := filepath.Join(sd, "openapi"+ext)
		if err := os.WriteFile(sp, c.SpecBytes(), 0o644); err != nil {
			return nil, err
		}
		cfg := ""
		if c.CfgRaw != nil || c.Flags.Cors {
			cfg = filepath.Join(sd, ".goag.yaml")
			content := c.CfgRaw
			if content == nil {
				content = []byte("cors:\n  enable: true\n")
			}
			if err := os.WriteFile(cfg, content, 0o644); err != nil {
				return nil, err
			}
		}
		od := filepath.Join(root, "g", name)
		if err := os.MkdirAll(od, 0o755); err != nil {
			return nil, err
		}
		out = append(out, Placed{Case: c, Idx: i, Spec: sp, Cfg: cfg, Out: od, Pkg: "gen"})
	}
	return out, nil
}

func (p Placed) Job() Job {
	f := p.Case.Flags
	if f.SpecName == "" {
		f.SpecName = "openapi.yaml" // the CLI's default for --spec-handler-name
	}
	cfg := p.Cfg
	if cfg == "" {
		// what the command line passes too: the (absent) config next to the spec
		cfg = filepath.Join(filepath.Dir(p.Spec), ".goag.yaml")
	}
	return Job{
		ID: p.Case.ID, Spec: p.Spec, Out: p.Out, Package: p.Pkg, BasePath: f.BasePath, Cfg: cfg,
		SpecName: f.SpecName, Client: f.Client, NoAPI: f.NoAPIHandler, DoNotEdit: f.DoNotEdit,
	}
}

// CLIArgs gives the real command line equivalent to the job.
func (p Placed) CLIArgs() []string {
	f := p.Case.Flags
	args := []string{"--file", p.Spec, "--out", p.Out, "--package", p.Pkg,
		"--client=" + strconv.FormatBool(f.Client),
		"--donotedit=" + strconv.FormatBool(f.DoNotEdit),
		"--api-handler=" + strconv.FormatBool(!f.NoAPIHandler)}
	if f.BasePath != "" {
		args = append(args, "--basepath", f.BasePath)
	}
	if p.Cfg != "" {
		args = append(args, "--config", p.Cfg)
	} else {
		args = append(args, "--config", filepath.Join(filepath.Dir(p.Spec), ".goag.yaml"))
	}
	if f.SpecName != "" {
		args = append(args, "--spec-handler-name", f.SpecName)
	}
	return args
}

// WriteModule writes a go.mod into dir. withDrv adds the verif driver
// (and goag, which verif's go.mod requires for vgen) as replaced modules.
func WriteModule(dir, name string, withDrv bool) error {
	mod := "module " + name + "\n\ngo 1.23\n"
	if withDrv {
		mod += "\nrequire verif v0.0.0\n\nreplace verif => " + VerifDir + "\n\nreplace github.com/vkd/goag => " + RepoDir() + "\n"
		bs, err := os.ReadFile(filepath.Join(VerifDir, "go.sum"))
		if err == nil {
			_ = os.WriteFile(filepath.Join(dir, "go.sum"), bs, 0o644)
		}
	}
	return os.WriteFile(filepath.Join(dir, "go.mod"), []byte(mod), 0o644)
}

// ParseBuildErrors splits `go build` / `go vet` output into per-package
// messages. Package headers look like "# mod/g/c00012".
func ParseBuildErrors(out string) map[string][]string {
	res := map[string][]string{}
	cur := ""
	for _, line := range strings.Split(out, "\n") {
		if strings.HasPrefix(line, "# ") {
			cur = strings.Fields(line[2:])[0]
			continue
		}
		if strings.TrimSpace(line) == "" || cur == "" {
			continue
		}
		res[cur] = append(res[cur], line)
	}
	return res
}

func SortedKeys[T any](m map[string]T) []string {
	ks := make([]string, 0, len(m))
	for k := range m {
		ks = append(ks, k)
	}
	sort.Strings(ks)
	return ks
}
