#!/bin/bash
# usage: try_seeded_wt.sh <seeded id> <property> [tier] [seed]
# Like try_seeded.sh but leaves /repo alone: the change is applied to a scratch worktree of /repo HEAD
# (VERIF_REPO), evidence and replays go to a scratch directory (VERIF_OUT). Safe to run in parallel.
export GOFLAGS=-mod=mod GOPROXY=off GOSUMDB=off GOTOOLCHAIN=local
id=$1; prop=$2; tier=${3:-quick}; seed=${4:-1}
wt=/tmp/try-$id-$prop; out=/tmp/try-$id-$prop.out
rm -rf $wt $out; mkdir -p $out
git -C /repo worktree add --detach $wt HEAD >/dev/null 2>&1 || { echo "cannot add worktree $wt"; exit 2; }
if ! git -C $wt apply /verif/seeded/$id/patch.diff; then echo "PATCH-DOES-NOT-APPLY $id"; git -C /repo worktree remove --force $wt; exit 3; fi
cd /verif
log=$(VERIF_REPO=$wt VERIF_OUT=$out VERIF_SEED=$seed ${VCHECK:-bin/vcheck} run $prop --tier $tier 2>&1); code=$?
nv=$(echo "$log" | grep -c "^VIOLATION")
echo "$id -> $prop exit=$code violations=$nv $(echo "$log" | grep -a -m1 '^  case=' | LC_ALL=C tr -c '[:print:]\n' '?' | cut -c1-220)"
[ $code -eq 2 ] && echo "$log" | grep INCONCLUSIVE | head -2
[ $code -ge 3 ] && echo "$log" | tail -5
git -C /repo worktree remove --force $wt; rm -rf $out
exit 0
