#!/bin/bash
# Runs every confirmed seeded change against the quick check of its own property (and extra checks given as "id:Cxx,Cyy").
# Output: /verif/seeded/RESULTS.tsv  (id, property, detected yes/no, exit, first violation line)
cd /verif
out=seeded/RESULTS.tsv
[ -z "$*" ] && : > $out
only="$@"
for d in seeded/C*/; do
  id=$(basename $d)
  if [ -n "$only" ] && ! echo " $only " | grep -q " $id "; then continue; fi
  prop=${id:0:3}
  conf=$(cat $d/confirm.json 2>/dev/null)
  if ! echo "$conf" | grep -q '"demo_with_patch_exit":[1-9]'; then
    echo -e "$id\t$prop\tobsolete\t-\tdemo does not fail on the current HEAD (made harmless by a fix commit)" >> $out; continue
  fi
  line=$(./tools/try_seeded.sh $id $prop 2>&1 | grep -v "^KNOWN" | grep -- "->" | head -1)
  code=$(echo "$line" | sed -n 's/.*exit=\([0-9]*\).*/\1/p')
  det=no; [ "$code" = "1" ] && det=yes
  echo -e "$id\t$prop\t$det\t$code\t$(echo "$line" | sed 's/.*violations=[0-9]* *//' | cut -c1-200)" >> $out
  rm -rf replays
done
cat $out
