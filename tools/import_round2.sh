#!/bin/bash
# copies finished round-2 outputs /tmp/seed2/Cxx.out/{a,b} to /verif/seeded/Cxx{c,d}
cd /verif
for o in /tmp/seed2/C*.out; do
  id=$(basename $o .out)
  for x in a b; do
    [ -f $o/$x/patch.diff ] || continue
    y=c; [ $x = b ] && y=d
    [ -d seeded/$id$y ] && continue
    mkdir -p seeded/$id$y && cp -r $o/$x/. seeded/$id$y/ && echo imported $id$y
  done
done
