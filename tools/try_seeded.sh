#!/bin/bash
# usage: try_seeded.sh <seeded id> <property> [tier]  — applies the seeded change to /repo, runs the check, reverts.
id=$1; prop=$2; tier=${3:-quick}
cd /verif
if ! git -C /repo diff --quiet; then echo "/repo has uncommitted changes"; exit 2; fi
if ! git -C /repo apply /verif/seeded/$id/patch.diff; then echo "PATCH-DOES-NOT-APPLY $id"; exit 3; fi
out=$(bin/vcheck run $prop --tier $tier 2>&1); code=$?
git -C /repo checkout -- . ; git -C /repo clean -fdq
nv=$(echo "$out" | grep -c "^VIOLATION")
echo "$id -> $prop exit=$code violations=$nv $(echo "$out" | grep -m1 '^  case=' | cut -c1-220)"
[ $code -eq 2 ] && echo "$out" | grep INCONCLUSIVE | head -2
exit 0
