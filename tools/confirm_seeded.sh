#!/bin/bash
# Confirms every seeded change in a scratch worktree of /repo (outside /repo and /verif):
#  1. demo passes on the current HEAD, 2. patch applies, 3. test-suite passes with the patch,
#  4. demo fails with the patch. Writes seeded/<id>/confirm.json. Usage: confirm_seeded.sh [ids...]
export GOFLAGS=-mod=mod GOPROXY=off GOSUMDB=off GOTOOLCHAIN=local
cd /verif/seeded
ids="$@"; [ -z "$ids" ] && ids=$(ls)
for id in $ids; do
  wt=/tmp/confirm-$id
  rm -rf $wt; git -C /repo worktree add --detach $wt HEAD >/dev/null 2>&1
  head=$(git -C $wt rev-parse --short HEAD)
  chmod +x $id/demo/run.sh 2>/dev/null
  (cd $id/demo && timeout 900 bash ./run.sh $wt) > /tmp/confirm-$id.base.log 2>&1; base=$?
  git -C $wt checkout -q -- . ; git -C $wt clean -fdq
  if git -C $wt apply $PWD/$id/patch.diff 2>/tmp/confirm-$id.apply.log; then applies=true; else applies=false; fi
  suite=-1; demo=-1; ntests=0
  if $applies; then
    (cd $wt && go build ./... && go test -vet=off -count=1 -json ./... ) > /tmp/confirm-$id.suite.log 2>&1; suite=$?
    ntests=$(grep -c '"Action":"pass","Package":"[^"]*","Test"' /tmp/confirm-$id.suite.log)
    (cd $id/demo && timeout 900 bash ./run.sh $wt) > /tmp/confirm-$id.patched.log 2>&1; demo=$?
  fi
  echo "{\"id\":\"$id\",\"repo_head\":\"$head\",\"demo_on_unchanged_exit\":$base,\"patch_applies\":$applies,\"suite_exit_with_patch\":$suite,\"tests_passed_with_patch\":$ntests,\"demo_with_patch_exit\":$demo}" > $id/confirm.json
  cat $id/confirm.json
  git -C /repo worktree remove --force $wt; rm -f /tmp/confirm-$id.*.log
done
git -C /repo worktree prune
