#!/usr/bin/env python3
"""Writes /verif/MANIFEST.json from the table below (kept by hand)."""
import json, subprocess

CHECKS = {
 "C01": dict(
   technique="runtime monitoring of the real generator: exit status / format-error log / gofmt idempotence / real `go build` in a requirement-free module, over a feature-matrix corpus",
   text="Every case is one execution of the real generator (in-process harness built from /repo with the verif tag, a sample re-run through the real CLI and compared byte-wise). Monitors on each execution: returned error, the 'Error on format go source' log line, go/format idempotence of every written file, and one real `go build` of all generated packages in a module with no requirements. Held-on-what-was-run: ~2.9k (quick) / ~5.4k (thorough) generator runs over the K x P x R x N x F matrix, name/text shape cells, upstream fixtures and run-time families.",
   note="Trusted: Go toolchain (go build, go/format) as compile/format oracle; vgen calls the same GenerateFile entry point as cmd/goag. Known findings (genuine defects, recorded) in known_findings.json.",
   ref="§4 C01"),
}

NOT_YET = {}

def main():
    props = [json.loads(l) for l in open('/verif/properties.jsonl')]
    checks = []
    na = []
    for p in props:
        i = p['id']
        if i in CHECKS:
            c = CHECKS[i]
            checks.append({
              "property_id": i,
              "quick_cmd": f"bin/vcheck run {i} --tier quick",
              "thorough_cmd": f"bin/vcheck run {i} --tier thorough",
              "evidence_file": f"/verif/evidence/{i}.json",
              "replay_cmd_template": "cat {path}",
              "engine": "vcheck",
              "level_claimed": {"category": "exploration", "text": c['text'], "design_ref": c['ref']},
              "level_note": c['note'],
              "technique": c['technique'],
            })
        else:
            na.append({"property_id": i, "reason": NOT_YET.get(i, "check not built yet in this session (runtime monitor planned, see DESIGN.md §4); not claimed until it runs clean")})
    hooks = subprocess.run(['git','-C','/repo','log','--format=%h','--grep=^verif hook'],capture_output=True,text=True).stdout.split()
    m = {
      "version": 1,
      "setup_cmd": "cd /verif && GOFLAGS=-mod=mod GOPROXY=off GOSUMDB=off GOTOOLCHAIN=local go build -o bin/vcheck ./cmd/vcheck",
      "hooks": {
        "guard": "verif",
        "enable": "go build -tags verif (cmd/vgen links /repo through a replace directive and is rebuilt by every check)",
        "baseline_off_cmd": "cd /repo && GOFLAGS=-mod=mod GOPROXY=off GOSUMDB=off GOTOOLCHAIN=local go test -vet=off -count=1 ./...",
        "source_commits": hooks,
        "add_only": True,
      },
      "engines": [{"name": "vcheck", "path": "/verif/cmd/vcheck", "serves_properties": [c["property_id"] for c in checks],
                   "kind_free_text": "Go orchestrator: generates corpora (specgen), runs the real generator (vgen / CLI), compiles the written packages together with a reflective driver (drv) as per-package test binaries, and evaluates recorded observations against independent reference models"}],
      "checks": checks,
      "not_applicable": na,
      "notes": "All checks are runtime monitors over executions of the real generator or of the code it wrote; see DESIGN.md. Exit 2 + 'INCONCLUSIVE' means the run observed too little to decide.",
    }
    json.dump(m, open('/verif/MANIFEST.json','w'), indent=1)
    print("checks:", [c["property_id"] for c in checks], "not claimed:", len(na))
main()
