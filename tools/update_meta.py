#!/usr/bin/env python3
"""Writes the bookkeeping fields of every seeded/<id>/meta.json from
seeded/<id>/confirm.json (tools/confirm_seeded.sh) and seeded/RESULTS.tsv
(tools/seeded_matrix_wt.sh): round, confirmed_by_me, status, detected_by."""
import json, os, sys

ROOT = os.path.join(os.path.dirname(os.path.abspath(__file__)), "..", "seeded")
ROUND = {"a": 1, "b": 1, "c": 2, "d": 2, "e": 3, "f": 3, "g": 4, "h": 4, "i": 5, "j": 5, "k": 6, "l": 6, "m": 7, "n": 7, "o": 8, "p": 8}
NOTES = {
    "C07j": "not detected: needs x-goag-go-type custom item types, which are outside the driven dialect (DESIGN §12)",
    "C06n": "not detected: needs a set Nullable holding a nil slice; the value domain of the JSON checks keeps set Nullables non-nil (DESIGN §11: nil encodes as null = the unset state)",
    "C09n": "not detected: needs a header parameter named Content-Type next to a JSON body; on the unchanged tree that parameter already arrives set when the caller left it unset (the client's own Content-Type), so the shape is outside the driven dialect",
    "C18o": "not detected: the $ref'd JSON request body component is a codec-less position on the unchanged tree (recorded finding C18-component-json-request-body): $ref and inline copy already differ there, a further difference in the same place is not told apart",
    "C01l": "not detected: needs a config file with maybe.type, custom wrapper types are outside the driven dialect (DESIGN §12)",
}
HOW = ("tools/confirm_seeded.sh: scratch worktree of /repo HEAD, demo/run.sh on the clean worktree, "
       "git apply patch.diff, go test ./... , demo/run.sh again")

rows = {}
for line in open(os.path.join(ROOT, "RESULTS.tsv"), errors="replace"):
    f = line.rstrip("\n").split("\t")
    if len(f) >= 5:
        rows[f[0]] = f

for d in sorted(os.listdir(ROOT)):
    mp = os.path.join(ROOT, d, "meta.json")
    if not os.path.isfile(mp):
        continue
    m = json.load(open(mp))
    m["round"] = ROUND.get(d[-1], m.get("round"))
    cp = os.path.join(ROOT, d, "confirm.json")
    obsolete = False
    if os.path.isfile(cp):
        c = json.load(open(cp))
        m["confirmed_by_me"] = {
            "repo_head": c.get("repo_head"),
            "demo_exit_on_unchanged_tree": c.get("demo_on_unchanged_exit"),
            "patch_applies": c.get("patch_applies"),
            "tests_passed_with_patch": c.get("tests_passed_with_patch"),
            "demo_exit_with_patch": c.get("demo_with_patch_exit"),
            "how": HOW,
        }
        obsolete = c.get("demo_with_patch_exit") == 0
    m["status"] = ("obsolete: a fix commit made this change harmless (demo passes with the patch on the current HEAD)"
                   if obsolete else "kept")
    r = rows.get(d)
    if obsolete:
        m.pop("detected_by", None)
    elif r:
        det = r[2].startswith("yes")
        by = d[:3]
        if "(by " in r[2]:
            by = r[2].split("(by ")[1].rstrip(")")
        db = {"check": by, "tier": "quick", "seed": 1, "detected": det, "first_violation": r[4] if det else ""}
        if not det:
            db["note"] = NOTES.get(d, "not detected")
        m["detected_by"] = db
    json.dump(m, open(mp, "w"), indent=1, ensure_ascii=False)
    open(mp, "a").write("\n")
print("updated", len(rows), "rows")
