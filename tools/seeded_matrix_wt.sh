#!/bin/bash
# Runs every confirmed seeded change against the quick check of its own property in a scratch worktree
# (tools/try_seeded_wt.sh, /repo untouched), P at a time. A change its own check misses is tried against
# the checks listed in seeded/<id>/also.txt (e.g. C04d -> C12). Output: seeded/RESULTS.tsv
# usage: seeded_matrix_wt.sh [-p N] [ids...]
cd /verif
P=3; if [ "$1" = "-p" ]; then P=$2; shift 2; fi
ids="$@"; [ -z "$ids" ] && ids=$(cd seeded; ls -d C???)
tmp=$(mktemp -d /tmp/matrix.XXXX)
one() {
  id=$1; prop=${id:0:3}; d=seeded/$id
  if ! grep -q '"demo_with_patch_exit":[1-9]' $d/confirm.json 2>/dev/null; then
    printf '%s\t%s\tobsolete\t-\tdemo does not fail on the current HEAD (made harmless by a fix commit)\n' "$id" "$prop"; return
  fi
  line=$(tools/try_seeded_wt.sh $id $prop 2>&1 | grep -- "->" | head -1)
  code=$(echo "$line" | sed -n 's/.*exit=\([0-9]*\).*/\1/p')
  by=$prop
  if [ "$code" != "1" ] && [ -f $d/also.txt ]; then
    for other in $(cat $d/also.txt); do
      l2=$(tools/try_seeded_wt.sh $id $other 2>&1 | grep -- "->" | head -1)
      c2=$(echo "$l2" | sed -n 's/.*exit=\([0-9]*\).*/\1/p')
      if [ "$c2" = "1" ]; then line=$l2; code=$c2; by=$other; break; fi
    done
  fi
  det=no; [ "$code" = "1" ] && det="yes"; [ "$by" != "$prop" ] && det="yes (by $by)"
  printf '%s\t%s\t%s\t%s\t%s\n' "$id" "$prop" "$det" "$code" "$(printf '%s' "$line" | sed 's/.*violations=[0-9]* *//' | tr '\t' ' ' | cut -c1-200)"
}
export -f one
printf "%s\n" $ids | xargs -P $P -I{} bash -c 'one {} > '$tmp'/{}.row'
cat $tmp/*.row | sort > $tmp/all
if [ -z "$*" ]; then cp $tmp/all seeded/RESULTS.tsv; else
  # replace the rows of the given ids
  touch seeded/RESULTS.tsv
  grep -v -F -f <(cut -f1 $tmp/all | sed 's/$/\t/') seeded/RESULTS.tsv > $tmp/rest
  cat $tmp/rest $tmp/all | sort > seeded/RESULTS.tsv
fi
cat $tmp/all; rm -rf $tmp
