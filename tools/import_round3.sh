#!/bin/bash
# copies finished round-3 outputs /tmp/seed3/Cxx.out/{a,b} to /verif/seeded/Cxx{e,f}
cd /verif
for o in /tmp/seed3/C*.out; do
  id=$(basename $o .out)
  for x in a b; do
    [ -f $o/$x/patch.diff ] || continue
    [ -f $o/$x/meta.json ] || continue
    y=e; [ $x = b ] && y=f
    [ -d seeded/$id$y ] && continue
    mkdir -p seeded/$id$y && cp -r $o/$x/. seeded/$id$y/ && echo imported $id$y
  done
done
