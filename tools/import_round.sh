#!/bin/bash
# usage: import_round.sh <dir> <suffix-a> <suffix-b>   e.g. import_round.sh /tmp/seed4 g h
# copies finished outputs <dir>/Cxx.out/{a,b} to /verif/seeded/Cxx{<suffix-a>,<suffix-b>}
cd /verif
for o in $1/C*.out; do
  id=$(basename $o .out)
  for x in a b; do
    [ -f $o/$x/patch.diff ] || continue
    [ -f $o/$x/meta.json ] || continue
    y=$2; [ $x = b ] && y=$3
    [ -d seeded/$id$y ] && continue
    mkdir -p seeded/$id$y && cp -r $o/$x/. seeded/$id$y/ && echo imported $id$y
  done
done
