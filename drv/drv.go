// Package drv is the run-time driver compiled together with a package that
// goag generated. It is purely reflective: it never names a generated
// identifier except the handful goag emits for every spec (API, Client, …).
// It drives the generated code with workloads and evaluates what it observes
// against independent reference models built from the spec (package oas).
package drv

import (
	"context"
	"encoding/json"
	"fmt"
	"math/rand"
	"net/http"
	"os"
	"reflect"
	"runtime/debug"
	"sort"
	"strings"
	"sync"
	"testing"

	"verif/oas"
)

type Registry struct {
	Types  map[string]reflect.Type
	Funcs  map[string]any
	Vars   map[string]any
	Consts map[string]any
}

type Case struct {
	ID       string         `json:"id"`
	Modes    []string       `json:"modes"`
	Seed     int64          `json:"seed"`
	Tier     string         `json:"tier"`
	SpecFile string         `json:"spec_file"`
	SpecExt  string         `json:"spec_ext"`
	BasePath string         `json:"basepath_flag"`
	Client   bool           `json:"client"`
	Cors     bool           `json:"cors"`
	SpecName string         `json:"spec_name"`
	Params   map[string]any `json:"params,omitempty"`
	Aux      map[string]any `json:"aux,omitempty"`
}

func (c Case) Int(key string, def int) int {
	if v, ok := c.Params[key].(float64); ok {
		return int(v)
	}
	return def
}

func (c Case) Thorough() bool { return c.Tier == "thorough" }

// Ctx is the state of one driver run.
type Ctx struct {
	T    *testing.T
	Reg  Registry
	Case Case
	Doc  *oas.Doc
	Base string // effective base path (no trailing slash)
	Rng  *rand.Rand
	Ops  []*Op

	Kin     *kinSO // second opinion (may be nil)
	SpecRaw []byte

	mu      sync.Mutex
	notes   []string
	out     *os.File
	stats   map[string]int
	nviol   map[string]int
	samples int
	mode    string
}

type Op struct {
	Key         string // "GET /pets/{id}"
	Path        string
	Method      string
	FieldIndex  int
	FieldName   string
	HandlerType reflect.Type
	ReqIface    reflect.Type
	RespIface   reflect.Type
	ParamsType  reflect.Type
	ParseErr    bool // Parse() returns (params, error)
	Spec        *oas.Operation
	Impl        []reflect.Type // registry types implementing RespIface (value receiver types; pointer types noted separately)
	ImplPtr     []reflect.Type
	ClientM     *reflect.Method
}

type event map[string]any

func (c *Ctx) emit(e event) {
	bs, err := json.Marshal(e)
	if err != nil {
		bs, _ = json.Marshal(event{"t": "viol", "class": "driver-bug", "msg": "unmarshalable event: " + err.Error()})
	}
	c.mu.Lock()
	c.out.Write(append(bs, '\n'))
	c.mu.Unlock()
}

// Viol records a violation. class+msg must be stable across seeds for a given
// defect; variable detail goes into input / expected / observed.
func (c *Ctx) Viol(class, msg string, input, expected, observed any) {
	c.mu.Lock()
	key := class + "|" + msg
	c.nviol[key]++
	n := c.nviol[key]
	c.mu.Unlock()
	if n > 3 {
		return // the count is in the END event
	}
	c.emit(event{"t": "viol", "mode": c.mode, "class": class, "msg": msg, "input": input, "expected": expected, "observed": observed})
}

func (c *Ctx) Stat(k string, n int) {
	c.mu.Lock()
	c.stats[k] += n
	c.mu.Unlock()
}

func (c *Ctx) Distinct(k string) {
	c.mu.Lock()
	if _, ok := c.stats["distinct:"+k]; !ok {
		c.stats["distinct:"+k] = 1
	}
	c.mu.Unlock()
}

// Note keeps up to 6 free-text notes per run (second-opinion disagreements).
func (c *Ctx) Note(s string) {
	c.mu.Lock()
	if len(c.notes) < 6 {
		c.notes = append(c.notes, s)
	}
	c.mu.Unlock()
}

func (c *Ctx) Sample(v any) {
	c.mu.Lock()
	c.samples++
	n := c.samples
	c.mu.Unlock()
	if n <= 3 {
		c.emit(event{"t": "sample", "mode": c.mode, "v": v})
	}
}

var modes = map[string]func(*Ctx){}

// Main is called from the generated zz_verif_test.go.
func Main(t *testing.T, reg Registry) {
	bs, err := os.ReadFile("verif_case.json")
	if err != nil {
		t.Skip("no verif_case.json")
		return
	}
	var cs Case
	if err := json.Unmarshal(bs, &cs); err != nil {
		t.Fatalf("verif_case.json: %v", err)
	}
	out, err := os.OpenFile("verif_out.jsonl", os.O_CREATE|os.O_WRONLY|os.O_TRUNC, 0o644)
	if err != nil {
		t.Fatal(err)
	}
	defer out.Close()
	c := &Ctx{T: t, Reg: reg, Case: cs, out: out, stats: map[string]int{}, nviol: map[string]int{}, Rng: rand.New(rand.NewSource(cs.Seed))}
	c.emit(event{"t": "BEGIN", "case": cs.ID})
	spec, err := os.ReadFile(cs.SpecFile)
	if err != nil {
		c.emit(event{"t": "fatal", "msg": err.Error()})
		return
	}
	if cs.SpecExt == ".yaml" {
		spec, err = yamlToJSON(spec)
		if err != nil {
			c.emit(event{"t": "fatal", "msg": "yaml: " + err.Error()})
			return
		}
	}
	c.Doc, err = oas.Parse(spec)
	if err != nil {
		c.emit(event{"t": "fatal", "msg": "spec: " + err.Error()})
		return
	}
	c.Base = c.Doc.BasePath(cs.BasePath)
	c.SpecRaw = spec
	if k, kerr := newKin(spec); kerr == nil {
		c.Kin = k
	} else {
		c.Stat("kin_unavailable", 1)
	}
	if err := c.discover(); err != nil {
		c.emit(event{"t": "fatal", "msg": "discover: " + err.Error()})
		return
	}
	for _, m := range cs.Modes {
		fn := modes[m]
		if fn == nil {
			c.emit(event{"t": "fatal", "msg": "unknown mode " + m})
			continue
		}
		c.mode = m
		c.emit(event{"t": "MODE", "mode": m})
		func() {
			defer func() {
				if p := recover(); p != nil {
					c.emit(event{"t": "viol", "mode": m, "class": "driver-panic", "msg": "panic escaped into the driver: " + firstLine(fmt.Sprint(p)), "observed": string(debug.Stack())})
				}
			}()
			fn(c)
		}()
	}
	c.mu.Lock()
	stats := c.stats
	nv := c.nviol
	c.mu.Unlock()
	c.emit(event{"t": "END", "case": cs.ID, "stats": stats, "viol_counts": nv, "notes": c.notes})
}

func firstLine(s string) string {
	if i := strings.IndexByte(s, '\n'); i >= 0 {
		return s[:i]
	}
	return s
}

var (
	ctxType     = reflect.TypeOf((*context.Context)(nil)).Elem()
	errType     = reflect.TypeOf((*error)(nil)).Elem()
	httpReqType = reflect.TypeOf((*http.Request)(nil))
	handlerType = reflect.TypeOf((*http.Handler)(nil)).Elem()
	rwType      = reflect.TypeOf((*http.ResponseWriter)(nil)).Elem()
)

// discover finds the operations from the API struct: every field whose func
// type carries generated Path() and Method() methods is a handler field.
func (c *Ctx) discover() error {
	api, ok := c.Reg.Types["API"]
	if !ok {
		return nil // package without API handler
	}
	if api.Kind() != reflect.Struct {
		return fmt.Errorf("API is %s", api.Kind())
	}
	specOps := map[string]*oas.Operation{}
	ops := c.Doc.Operations()
	for i := range ops {
		specOps[ops[i].Key()] = &ops[i]
	}
	var clientT reflect.Type
	if ct, ok := c.Reg.Types["Client"]; ok {
		clientT = reflect.PointerTo(ct)
	}
	for i := 0; i < api.NumField(); i++ {
		f := api.Field(i)
		ft := f.Type
		if ft.Kind() != reflect.Func {
			continue
		}
		pm, ok1 := ft.MethodByName("Path")
		mm, ok2 := ft.MethodByName("Method")
		if !ok1 || !ok2 || ft.NumIn() != 2 || ft.NumOut() != 1 {
			continue
		}
		zero := reflect.Zero(ft)
		path := pm.Func.Call([]reflect.Value{zero})[0].String()
		meth := mm.Func.Call([]reflect.Value{zero})[0].String()
		op := &Op{Key: meth + " " + path, Path: path, Method: meth, FieldIndex: i, FieldName: f.Name, HandlerType: ft,
			ReqIface: ft.In(1), RespIface: ft.Out(0)}
		if pr, ok := op.ReqIface.MethodByName("Parse"); ok {
			op.ParamsType = pr.Type.Out(0)
			op.ParseErr = pr.Type.NumOut() == 2
		}
		op.Spec = specOps[op.Key]
		for _, name := range sortedKeys(c.Reg.Types) {
			t := c.Reg.Types[name]
			if t.Kind() == reflect.Interface {
				continue
			}
			if t.Implements(op.RespIface) {
				op.Impl = append(op.Impl, t)
			} else if reflect.PointerTo(t).Implements(op.RespIface) {
				op.ImplPtr = append(op.ImplPtr, t)
			}
		}
		if clientT != nil && op.ParamsType != nil {
			for j := 0; j < clientT.NumMethod(); j++ {
				m := clientT.Method(j)
				if m.Type.NumIn() == 3 && m.Type.In(2) == op.ParamsType && m.Type.NumOut() == 2 && m.Type.Out(0) == op.RespIface {
					mc := m
					op.ClientM = &mc
				}
			}
		}
		c.Ops = append(c.Ops, op)
	}
	return nil
}

func sortedKeys[T any](m map[string]T) []string {
	ks := make([]string, 0, len(m))
	for k := range m {
		ks = append(ks, k)
	}
	sort.Strings(ks)
	return ks
}

// NewAPI returns a pointer to a fresh API value with every handler field set
// to a handler built by mk (nil mk: handlers that return the zero response of
// the first implementer).
func (c *Ctx) NewAPI(mk func(op *Op) func(ctx context.Context, req reflect.Value) reflect.Value) reflect.Value {
	apiT := c.Reg.Types["API"]
	api := reflect.New(apiT)
	for _, op := range c.Ops {
		op := op
		var inner func(ctx context.Context, req reflect.Value) reflect.Value
		if mk != nil {
			inner = mk(op)
		}
		fn := reflect.MakeFunc(op.HandlerType, func(args []reflect.Value) []reflect.Value {
			var out reflect.Value
			if inner != nil {
				out = inner(args[0].Interface().(context.Context), args[1])
			}
			if !out.IsValid() || !out.Type().Implements(op.RespIface) {
				// (a response prepared for another operation: the request was routed elsewhere)
				out = c.ZeroResponse(op)
			}
			return []reflect.Value{out.Convert(op.RespIface)}
		})
		api.Elem().Field(op.FieldIndex).Set(fn)
	}
	return api
}

// ZeroResponse is some valid response value for the operation.
func (c *Ctx) ZeroResponse(op *Op) reflect.Value {
	if len(op.Impl) > 0 {
		v := reflect.New(op.Impl[0]).Elem()
		if f := v.FieldByName("Code"); f.IsValid() && f.Kind() == reflect.Int {
			f.SetInt(500)
		}
		fillReaders(v)
		return v
	}
	if len(op.ImplPtr) > 0 {
		return reflect.New(op.ImplPtr[0])
	}
	return reflect.Zero(op.RespIface)
}

// Parse calls req.Parse() by reflection: (params, err, hasErr).
func Parse(req reflect.Value) (reflect.Value, error) {
	m := req.MethodByName("Parse")
	outs := m.Call(nil)
	if len(outs) == 2 {
		if e, ok := outs[1].Interface().(error); ok && e != nil {
			return outs[0], e
		}
	}
	return outs[0], nil
}

func (c *Ctx) Handler(api reflect.Value) http.Handler { return api.Interface().(http.Handler) }

func (c *Ctx) SetField(api reflect.Value, name string, v any) bool {
	f := api.Elem().FieldByName(name)
	if !f.IsValid() {
		return false
	}
	rv := reflect.ValueOf(v)
	if !rv.IsValid() {
		f.Set(reflect.Zero(f.Type()))
		return true
	}
	if rv.Type().ConvertibleTo(f.Type()) {
		f.Set(rv.Convert(f.Type()))
		return true
	}
	return false
}

func (c *Ctx) OpByKey(key string) *Op {
	for _, op := range c.Ops {
		if op.Key == key {
			return op
		}
	}
	return nil
}
