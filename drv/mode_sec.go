package drv

import (
	"context"
	"fmt"
	"io"
	"net/http"
	"net/url"
	"reflect"
	"sort"
	"strings"

	"verif/oas"
)

func init() { modes["sec"] = modeSec }

// schemeField maps a security scheme to the API's authenticator field by
// what the scheme reads, not by goag's naming: bearer -> the field whose name
// contains "Bearer"; apiKey -> the field whose normalised name ends with the
// normalised header / query name.
func (c *Ctx) schemeField(s oas.Scheme) string {
	fields := c.securityFields()
	switch {
	case s.Type == "http" && strings.EqualFold(s.Scheme, "bearer"):
		for _, f := range fields {
			if strings.Contains(f, "Bearer") {
				return f
			}
		}
	case s.Type == "apiKey" && (s.In == "header" || s.In == "query"):
		// exact match on what follows the common prefix of the apiKey fields, else a unique suffix match
		var cands []string
		for _, f := range fields {
			if strings.Contains(f, "Bearer") {
				continue
			}
			rest := strings.TrimPrefix(f, "SecurityAPIKeyAuth")
			if normName(rest) == normName(s.Name) {
				return f
			}
			if strings.HasSuffix(normName(f), normName(s.Name)) {
				cands = append(cands, f)
			}
		}
		if len(cands) == 1 {
			return cands[0]
		}
	}
	return ""
}

type detachedKey struct{}


func modeSec(c *Ctx) {
	if len(c.Ops) == 0 {
		return
	}
	schemes := c.Doc.Schemes()
	keys := sortedKeys(schemes)
	type obs struct {
		ran       bool
		tags      []string
		accepted  map[string]bool // scheme keys whose authenticator accepted during this request
		consulted int
		body      string // what the handler could still read from the request body
		readBody  bool
	}
	var cur *obs
	api := c.NewAPI(func(op *Op) func(ctx context.Context, req reflect.Value) reflect.Value {
		return func(ctx context.Context, req reflect.Value) reflect.Value {
			cur.ran = true
			if t, ok := ctx.Value(ctxTagKey{}).([]string); ok {
				cur.tags = t
			}
			// the request handed to the handler must be the one the authenticator returned
			if hr := req.MethodByName("HTTP"); hr.IsValid() {
				if r, ok := hr.Call(nil)[0].Interface().(*http.Request); ok && r != nil && r.Body != nil {
					bs, _ := io.ReadAll(r.Body)
					cur.body, cur.readBody = string(bs), true
				}
				if r, ok := hr.Call(nil)[0].Interface().(*http.Request); ok && r != nil {
					if t, ok := r.Context().Value(ctxTagKey{}).([]string); ok && len(cur.tags) == 0 {
						cur.tags = t
					}
				}
			}
			return reflect.Value{}
		}
	})
	handler := c.Handler(api)
	fieldOf := map[string]string{}
	for _, k := range keys {
		fieldOf[k] = c.schemeField(schemes[k])
	}
	rejectWithRequest := false
	// install: authenticator of scheme k accepts iff token == "good-"+k and tags the context
	install := func(nilScheme string) {
		for _, f := range c.securityFields() {
			api.Elem().FieldByName(f).Set(reflect.Zero(api.Elem().FieldByName(f).Type()))
		}
		for _, k := range keys {
			k := k
			f := fieldOf[k]
			if f == "" || k == nilScheme {
				continue
			}
			fv := api.Elem().FieldByName(f)
			// several schemes may share one field (same header name): accept any of their tokens
			fv.Set(reflect.MakeFunc(fv.Type(), func(args []reflect.Value) []reflect.Value {
				r := args[0].Interface().(*http.Request)
				tok := args[1].String()
				if cur != nil {
					cur.consulted++
				}
				for _, k2 := range keys {
					if fieldOf[k2] == f && k2 != nilScheme && tok == "good-"+k2 {
						if cur != nil {
							if cur.accepted == nil {
								cur.accepted = map[string]bool{}
							}
							cur.accepted[k2] = true
						}
						prev, _ := r.Context().Value(ctxTagKey{}).([]string)
						base := r.Context()
						if cur != nil && cur.consulted%3 == 2 {
							// an authenticator that answers with a request built on the
							// application's own context, not derived from the incoming one:
							// what it returns is what the handler must get
							base = context.WithValue(context.Background(), detachedKey{}, true)
							c.Stat("accepts_with_detached_context", 1)
						}
						nr := r.WithContext(context.WithValue(base, ctxTagKey{}, append(append([]string{}, prev...), k2)))
						return []reflect.Value{reflect.ValueOf(nr), reflect.ValueOf(true)}
					}
				}
				if rejectWithRequest {
					// "(r, false)" is as legal a refusal as "(nil, false)"
					return []reflect.Value{reflect.ValueOf(r), reflect.ValueOf(false)}
				}
				return []reflect.Value{reflect.Zero(httpReqType), reflect.ValueOf(false)}
			}))
		}
	}
	// credential assignments: valid / invalid / absent per scheme
	states := []string{"valid", "invalid", "absent"}
	var assigns [][]string
	var rec func(cur []string)
	rec = func(curA []string) {
		if len(curA) == len(keys) {
			assigns = append(assigns, append([]string{}, curA...))
			return
		}
		for _, s := range states {
			rec(append(curA, s))
		}
	}
	rec(nil)
	// malformed credentials: one scheme carries a hostile form of its
	// credential, the others are all absent or all valid. What the
	// authenticator is handed for such a value is goag's business; the
	// verdict follows the authenticators' recorded decisions.
	malformed := []string{"mal:Bearer", "mal:Bearer ", "mal:bearer", "mal:Bearer  %s", "mal:bearer %s", "mal:Token %s", "mal:%s", "mal:Bearer\t%s", "mal:B", "mal:", "mal:Bearer %s extra"}
	for i := range keys {
		for _, m := range malformed {
			for _, rest := range []string{"absent", "valid"} {
				a := make([]string, len(keys))
				for j := range a {
					a[j] = rest
				}
				a[i] = m
				assigns = append(assigns, a)
			}
		}
	}
	// a query apiKey is the query parameter, not a same-named field of a form
	// body: valid token only in the body (must be refused), valid token in the
	// query with junk in the body (must be accepted)
	for i, k := range keys {
		if sk := schemes[k]; sk.Type == "apiKey" && sk.In == "query" {
			for _, st := range []string{"form:body-only", "form:query-valid-body-junk"} {
				a := make([]string, len(keys))
				for j := range a {
					a[j] = "absent"
				}
				a[i] = st
				assigns = append(assigns, a)
			}
		}
	}
	nilOptions := append([]string{""}, keys...)
	for _, op := range c.Ops {
		if op.Spec == nil {
			continue
		}
		req := c.Doc.EffectiveSecurity(*op.Spec)
		path := c.Base + concrete(splitSegs(op.Path), nil)
		for ni, nilScheme := range nilOptions {
			rejectWithRequest = ni%2 == 0
			install(nilScheme)
			for _, as := range assigns {
				r := NewRequest(op.Method, path, "", nil, nil)
				q := r.URL.Query()
				cred := map[string]string{}
				hasMalformed := false
				sentBody := ""
				// schemes sharing a carrier (same header) cannot carry different credentials: last writer wins, reference follows the wire
				for i, k := range keys {
					s := schemes[k]
					tok := ""
					switch {
					case as[i] == "valid":
						tok = "good-" + k
					case as[i] == "invalid":
						tok = "bad"
					case strings.HasPrefix(as[i], "form:"):
						if op.Method != "POST" && op.Method != "PUT" && op.Method != "PATCH" {
							continue
						}
						form := url.Values{}
						if as[i] == "form:body-only" {
							form.Set(s.Name, "good-"+k)
						} else {
							form.Set(s.Name, "junk")
							q.Set(s.Name, "good-"+k)
							cred["qry:"+s.Name] = "good-" + k
						}
						body := form.Encode()
						sentBody = body
						r.Body = io.NopCloser(strings.NewReader(body))
						r.ContentLength = int64(len(body))
						r.Header.Set("Content-Type", "application/x-www-form-urlencoded")
						c.Stat("form_body_credential_requests", 1)
						continue
					case strings.HasPrefix(as[i], "mal:"):
						hasMalformed = true
						raw := strings.ReplaceAll(strings.TrimPrefix(as[i], "mal:"), "%s", "good-"+k)
						switch {
						case s.Type == "apiKey" && s.In == "query":
							q.Set(s.Name, raw)
						case s.Type == "apiKey" && s.In == "header":
							r.Header[http.CanonicalHeaderKey(s.Name)] = []string{raw}
						case s.Type == "apiKey":
						default:
							r.Header["Authorization"] = []string{raw}
						}
						continue
					default:
						continue
					}
					switch {
					case s.Type == "http" && strings.EqualFold(s.Scheme, "bearer"):
						r.Header.Set("Authorization", "Bearer "+tok)
						cred["hdr:authorization"] = tok
					case s.Type == "http":
						r.Header.Set("Authorization", "Basic "+tok)
						cred["hdr:authorization"] = "Basic " + tok
					case s.Type == "apiKey" && s.In == "header":
						r.Header.Set(s.Name, tok)
						cred["hdr:"+strings.ToLower(s.Name)] = tok
					case s.Type == "apiKey" && s.In == "query":
						q.Set(s.Name, tok)
						cred["qry:"+s.Name] = tok
					case s.Type == "apiKey" && s.In == "cookie":
						r.AddCookie(&http.Cookie{Name: s.Name, Value: tok})
					default:
						r.Header.Set("Authorization", "Bearer "+tok)
						cred["hdr:authorization"] = tok
					}
				}
				r.URL.RawQuery = q.Encode()
				accepted := func(k string) bool {
					s := schemes[k]
					if !s.Supported() || k == nilScheme || fieldOf[k] == "" {
						return false
					}
					var tok string
					switch {
					case s.Type == "http":
						tok = cred["hdr:authorization"]
					case s.In == "header":
						tok = cred["hdr:"+strings.ToLower(s.Name)]
					default:
						tok = cred["qry:"+s.Name]
					}
					return tok == "good-"+k
				}
				expectRun := len(req) == 0
				tag := ""
				for _, alt := range req {
					if len(alt) > 1 {
						tag = " [requirement has an alternative naming several schemes]"
					}
				}
				for _, alt := range req {
					if len(alt) == 0 && len(req) > 1 {
						tag += " [requirement has an alternative that asks for nothing, next to others]"
					}
				}
				// goag drops an alternative made of a scheme kind it does not support; the
				// recorded finding is the requirement in which nothing is left after that
				// (the operation becomes public). While a supported alternative remains,
				// it is enforced like any other and nothing is excused.
				everyAltUnsupported := len(req) > 0
				unsup := ""
				for _, alt := range req {
					has := false
					for _, k := range alt {
						if !schemes[k].Supported() {
							has = true
							unsup += " [requirement names an unsupported scheme kind: " + schemes[k].Type + "/" + schemes[k].Scheme + schemes[k].In + "]"
						}
					}
					if !has {
						everyAltUnsupported = false
					}
				}
				if everyAltUnsupported {
					tag += unsup
				}
				var okAlts [][]string
				for _, alt := range req {
					all := true
					for _, k := range alt {
						if !accepted(k) {
							all = false
						}
					}
					if all {
						expectRun = true
						okAlts = append(okAlts, alt)
					}
				}
				cur = &obs{}
				w := newRec()
				in := fmt.Sprintf("%s %s requirement=%v credentials=%v nil-authenticator=%q", op.Method, path, req, zip(keys, as), nilScheme)
				panicked := false
				func() {
					defer func() {
						if p := recover(); p != nil {
							panicked = true
							c.Viol("panic", "serving a request panicked: "+firstLine(fmt.Sprint(p)), in, nil, nil)
						}
					}()
					handler.ServeHTTP(w, r)
				}()
				c.Stat("requests", 1)
				c.Distinct(fmt.Sprintf("%s|%v|%v|%s", op.Key, req, as, nilScheme))
				if panicked {
					continue
				}
				if sentBody != "" && cur.ran && cur.readBody && cur.body != sentBody {
					// checking credentials must leave the request as it came: the body is the handler's to read
					c.Viol("request-altered", "the handler could not read the request body any more after the security check", in, sentBody, cur.body)
				}
				if hasMalformed {
					c.Stat("malformed_credential_requests", 1)
					byEvents := len(req) == 0
					for _, alt := range req {
						all := true
						for _, k := range alt {
							if !cur.accepted[k] {
								all = false
							}
						}
						if all {
							byEvents = true
						}
					}
					switch {
					case cur.ran && !byEvents:
						c.Viol("granted", "handler ran although no alternative of the operation's effective requirement was accepted by its authenticators (malformed credential)"+tag, in, "401, handler not invoked", fmt.Sprintf("handler ran, accepted=%v", cur.accepted))
					case !cur.ran && byEvents:
						c.Viol("denied", "handler did not run although the authenticators accepted an alternative of the operation's effective requirement (malformed credential)"+tag, in, "handler runs", fmt.Sprintf("status %d", w.Status))
					case !cur.ran && w.Status != 401:
						c.Viol("status-401", "refused request was not answered 401", in, 401, w.Status)
					}
					continue
				}
				switch {
				case expectRun && !cur.ran:
					c.Stat("expected_run", 1)
					c.Viol("denied", "handler did not run although an alternative of the operation's effective requirement was accepted (or the operation is public)"+tag, in, "handler runs", fmt.Sprintf("status %d", w.Status))
				case !expectRun && cur.ran:
					c.Stat("expected_refuse", 1)
					c.Viol("granted", "handler ran although no alternative of the operation's effective requirement was accepted"+tag, in, "401, handler not invoked", fmt.Sprintf("handler ran, context tags %v", cur.tags))
				case !expectRun:
					c.Stat("expected_refuse", 1)
					if w.Status != 401 {
						c.Viol("status-401", "refused request was not answered 401", in, 401, w.Status)
					}
				default:
					c.Stat("expected_run", 1)
					if len(req) > 0 && len(okAlts) > 0 {
						// the context must carry the tags of one accepted alternative
						match := false
						got := append([]string{}, cur.tags...)
						sort.Strings(got)
						for _, alt := range okAlts {
							if strings.Join(alt, ",") == strings.Join(got, ",") {
								match = true
							}
						}
						if !match {
							c.Viol("context", "handler did not receive the request returned by the authenticator(s) of an accepted alternative"+tag, in, okAlts, cur.tags)
						}
					}
				}
			}
		}
	}
}

func zip(a, b []string) []string {
	out := make([]string, len(a))
	for i := range a {
		out[i] = a[i] + "=" + b[i]
	}
	return out
}
