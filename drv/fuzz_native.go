package drv

import (
	"bytes"
	"context"
	"encoding/json"
	"fmt"
	"io"
	"math/rand"
	"net/http"
	"os"
	"reflect"
	"strings"
	"testing"

	"verif/oas"
)

// FuzzMain is the target of Go's native coverage-guided fuzzer (C14,
// thorough tier): the input bytes are a textual request
//
//	METHOD SP path?query LF (Header: value LF)* LF body
//
// served by a fully populated API; the monitors are the same as in the
// structured mode (recover() around ServeHTTP and Parse(), exactly one
// response).
func FuzzMain(f *testing.F, reg Registry) {
	bs, err := os.ReadFile("verif_case.json")
	if err != nil {
		f.Skip("no verif_case.json")
		return
	}
	var cs Case
	if err := json.Unmarshal(bs, &cs); err != nil {
		f.Fatal(err)
	}
	c := &Ctx{Reg: reg, Case: cs, stats: map[string]int{}, nviol: map[string]int{}, Rng: rand.New(rand.NewSource(cs.Seed))}
	c.out, _ = os.OpenFile(os.DevNull, os.O_WRONLY, 0)
	spec, err := os.ReadFile(cs.SpecFile)
	if err != nil {
		f.Fatal(err)
	}
	if cs.SpecExt == ".yaml" {
		if spec, err = yamlToJSON(spec); err != nil {
			f.Fatal(err)
		}
	}
	if c.Doc, err = oas.Parse(spec); err != nil {
		f.Fatal(err)
	}
	c.Base = c.Doc.BasePath(cs.BasePath)
	if err := c.discover(); err != nil || len(c.Ops) == 0 {
		f.Skip("no operations")
		return
	}
	var parsePanic any
	g := &Gen{Rng: c.Rng, Doc: c.Doc}
	implsOf := map[string][]*respImpl{}
	for _, op := range c.Ops {
		implsOf[op.Key] = uniqueImpls(op)
	}
	api := c.NewAPI(func(op *Op) func(ctx context.Context, req reflect.Value) reflect.Value {
		return func(ctx context.Context, req reflect.Value) reflect.Value {
			var params reflect.Value
			func() {
				defer func() {
					if p := recover(); p != nil {
						parsePanic = p
					}
				}()
				params, _ = Parse(req)
			}()
			if params.IsValid() {
				if b := params.FieldByName("Body"); b.IsValid() && (b.Type() == readerType || b.Type() == readCloserType) && !b.IsNil() {
					_, _ = io.Copy(io.Discard, b.Interface().(io.Reader))
				}
			}
			impls := implsOf[op.Key]
			if len(impls) == 0 {
				return reflect.Value{}
			}
			ri := impls[0]
			v := c.fillResponse(g, ri, nil)
			if ri.Ptr {
				p := reflect.New(ri.T)
				p.Elem().Set(v)
				return p
			}
			return v
		}
	})
	// authenticators: the bearer one installed, the others nil (both shapes are in scope)
	for i, fld := range c.securityFields() {
		if i%2 == 1 {
			continue
		}
		fv := api.Elem().FieldByName(fld)
		fv.Set(reflect.MakeFunc(fv.Type(), func(args []reflect.Value) []reflect.Value {
			return []reflect.Value{args[0], reflect.ValueOf(args[1].String() != "bad")}
		}))
	}
	if fn, ok := reg.Funcs["SpecFileHandler"]; ok {
		c.SetField(api, "SpecFileHandler", reflect.ValueOf(fn).Call(nil)[0].Interface())
	}
	h := c.Handler(api)
	// seed corpus: one canonical request per operation, plus a few hostile shapes
	for _, op := range c.Ops {
		if op.Spec == nil {
			continue
		}
		var b bytes.Buffer
		fmt.Fprintf(&b, "%s %s?%s\n", op.Method, c.Base+c.canonicalPath(op), c.canonicalQuery(op))
		for k, vs := range c.canonicalHeaders(op) {
			for _, v := range vs {
				fmt.Fprintf(&b, "%s: %s\n", k, v)
			}
		}
		b.WriteString("Authorization: Bearer good\n\n")
		if op.Spec.Body != nil && op.Spec.Body.JSON {
			dg := &DocGen{Doc: c.Doc, Rng: c.Rng}
			b.Write(EncodeDoc(dg.Valid(op.Spec.Body.RawSchema, 0), 0))
		}
		f.Add(b.Bytes())
	}
	f.Add([]byte("GET *\n\n"))
	f.Add([]byte("OPTIONS " + c.Base + "/\nAuthorization: Bearer\n\n{"))
	f.Fuzz(func(t *testing.T, data []byte) {
		r := requestFromBytes(data)
		parsePanic = nil
		w := newRec()
		var pv any
		func() {
			defer func() { pv = recover() }()
			h.ServeHTTP(w, r)
		}()
		if pv != nil {
			t.Fatalf("VERIF-VIOLATION panic in API.ServeHTTP: %v", pv)
		}
		if parsePanic != nil {
			t.Fatalf("VERIF-VIOLATION panic in Request.Parse(): %v", parsePanic)
		}
		if n := w.Responses(); n != 1 {
			t.Fatalf("VERIF-VIOLATION request answered %d times instead of once", n)
		}
	})
}

func requestFromBytes(data []byte) *http.Request {
	head, body, _ := bytes.Cut(data, []byte("\n\n"))
	lines := strings.Split(string(head), "\n")
	method, target, _ := strings.Cut(lines[0], " ")
	path, query, _ := strings.Cut(target, "?")
	hd := http.Header{}
	for _, l := range lines[1:] {
		k, v, ok := strings.Cut(l, ":")
		if !ok || k == "" {
			continue
		}
		// net/http canonicalises keys and trims values
		hd[http.CanonicalHeaderKey(strings.TrimSpace(k))] = append(hd[http.CanonicalHeaderKey(strings.TrimSpace(k))], strings.TrimSpace(v))
	}
	return NewRequest(method, path, query, hd, body)
}
