package drv

import (
	"encoding/json"
	"fmt"
	"io"
	"math"
	"math/rand"
	"reflect"
	"strings"
	"time"

	"verif/oas"
)

// Value generator (DESIGN §5.3): walks a reflect.Type together with the spec
// schema it was generated from and produces random and boundary values inside
// the stated domain (valid UTF-8, finite floats, RawMessage = valid JSON,
// oneOf = exactly one arm, additional keys disjoint from declared ones).

type Gen struct {
	Rng *rand.Rand
	Doc *oas.Doc
	// Wire: values must survive the HTTP wire (C09/C10): header-safe strings,
	// non-empty required arrays, '/'-free path values are handled by callers.
	Boundary bool
	// Unmapped counts fields that could not be matched to the schema.
	Unmapped      int
	UnmappedNames map[string]int
	// Tag, when non-empty, is the value of every generated string (C20);
	// TagInt, when HasTagInt, the value of every generated integer.
	Tag       string
	TagInt    int64
	HasTagInt bool
	// HugeNext makes the next generated string HugeLen bytes long (one large
	// JSON body per operation: limits on the decoder side would cut it).
	HugeNext bool
	HugeBody bool // set by the caller: arm HugeNext when the JSON body is filled
	// Zeroish: every scalar is its Go zero value ("" / 0 / false / the zero
	// time), containers are empty, optionals are unset or set to a zero value:
	// the values code tends to confuse with "nothing there".
	Zeroish bool
	// FieldKeys: additional-property maps also get keys spelled like the Go
	// field names of the struct that holds them ("Length" next to the declared
	// property "length"): legal keys that differ from every declared name.
	FieldKeys bool
	fieldKeys []string // armed by fillStruct for the next map
}

const HugeLen = 1<<20 + 1<<19

var timeType = reflect.TypeOf(time.Time{})
var rawType = reflect.TypeOf(json.RawMessage{})

var boundaryStrings = []string{"", "a", "hello world", "quote\"inside", "back\\slash", "tab\tnew\nline", "ünïcödé ✓", "😀 non-BMP", "<html>&amp;", "  ", "null", "true", "123", " lead", "trail ", "{\"json\":1}", "a/b?c=d&e=f#g", "%41%zz", "+plus", "semi;colon", "Smith, John", "a,b,c", "100% #1?", "\x7f", "\u0001ctl"}

func (g *Gen) str() string {
	if g.Tag != "" {
		return g.Tag
	}
	if g.HugeNext {
		g.HugeNext = false
		return strings.Repeat("0123456789abcdef", HugeLen/16)
	}
	if g.Rng.Intn(3) == 0 {
		return boundaryStrings[g.Rng.Intn(len(boundaryStrings))]
	}
	n := g.Rng.Intn(12)
	var b strings.Builder
	alpha := "abcXYZ019 _-./éß\"\\,%?#"
	rs := []rune(alpha)
	for i := 0; i < n; i++ {
		b.WriteRune(rs[g.Rng.Intn(len(rs))])
	}
	return b.String()
}

func (g *Gen) int64v(bits int) int64 {
	lim := int64(math.MaxInt64)
	if bits == 32 {
		lim = math.MaxInt32
	}
	switch g.Rng.Intn(8) {
	case 0:
		return 0
	case 1:
		return lim
	case 2:
		return -lim - 1
	case 3:
		return -1
	case 4:
		if bits == 32 {
			return 1<<24 + 1
		}
		return 1<<53 + 1
	}
	if bits == 32 {
		return int64(int32(g.Rng.Uint32()))
	}
	if g.Rng.Intn(2) == 0 {
		return int64(g.Rng.Intn(2000)) - 1000
	}
	return int64(g.Rng.Uint64())
}

func (g *Gen) float(bits int) float64 {
	switch g.Rng.Intn(10) {
	case 0:
		return 0
	case 1:
		return math.Copysign(0, -1)
	case 2:
		if bits == 32 {
			return math.MaxFloat32
		}
		return 1e308
	case 3:
		if bits == 32 {
			return float64(float32(1e-45))
		}
		return 5e-324
	case 4:
		return -1.5
	case 5:
		return float64(g.Rng.Intn(1000000))
	case 6:
		return 0.1
	}
	f := g.Rng.NormFloat64() * math.Pow(10, float64(g.Rng.Intn(20)-5))
	if bits == 32 {
		return float64(float32(f))
	}
	return f
}

func (g *Gen) timev() time.Time {
	zones := []*time.Location{time.UTC, time.FixedZone("", 2*3600), time.FixedZone("", -(11*3600 + 30*60)), time.FixedZone("", 5*3600+45*60)}
	sec := g.Rng.Int63n(253402300799) // years 1970..9999
	if g.Rng.Intn(4) == 0 {
		sec = -g.Rng.Int63n(62135596800) // back to year 1
	}
	nsec := int64(0)
	switch g.Rng.Intn(3) {
	case 1:
		nsec = int64(g.Rng.Intn(1000)) * 1e6
	case 2:
		nsec = int64(g.Rng.Intn(1e9))
	}
	return time.Unix(sec, nsec).In(zones[g.Rng.Intn(len(zones))])
}

func (g *Gen) rawJSON(depth int) json.RawMessage {
	var v any
	switch g.Rng.Intn(7) {
	case 0:
		v = nil
	case 1:
		v = g.Rng.Intn(100)
	case 2:
		v = g.str()
	case 3:
		v = g.Rng.Intn(2) == 0
	case 4:
		v = []any{1, "x", nil}
	case 5:
		v = map[string]any{"k": g.str(), "n": 1.5}
	default:
		v = 1.25
	}
	bs, _ := json.Marshal(v)
	return bs
}

// Value generates a value of type t for (dereferenced) schema s. pUnset is
// the probability that an optional / nullable wrapper is left unset.
func (g *Gen) Value(t reflect.Type, s oas.M, depth int) reflect.Value {
	v := reflect.New(t).Elem()
	g.fill(v, s, depth)
	return v
}

func (g *Gen) fill(v reflect.Value, s oas.M, depth int) {
	t := v.Type()
	if isWrapper(t) {
		if g.Rng.Intn(3) == 0 || (g.Zeroish && g.Rng.Intn(2) == 0) {
			return // unset: zero Value
		}
		v.Field(0).SetBool(true)
		g.fill(v.Field(1), s, depth)
		if wrapperKind(t) == "nullable" && v.Field(1).Kind() == reflect.Slice && v.Field(1).Type() != rawType && v.Field(1).IsNil() {
			// domain: a set Nullable holds a non-nil slice (a nil slice encodes as null = the unset state)
			v.Field(1).Set(reflect.MakeSlice(v.Field(1).Type(), 0, 0))
		}
		if wrapperKind(t) == "nullable" && v.Field(1).Type() == rawType {
			// domain: a set Nullable does not hold JSON null (that is the unset state)
			for i := 0; i < 20 && string(rawOrNull(v.Field(1).Bytes())) == "null"; i++ {
				v.Field(1).Set(reflect.ValueOf(g.rawJSON(depth)))
			}
			if string(rawOrNull(v.Field(1).Bytes())) == "null" {
				v.Field(1).Set(reflect.ValueOf(json.RawMessage(`0`)))
			}
		}
		return
	}
	switch t {
	case timeType:
		if g.Zeroish {
			return // time.Time{}: 0001-01-01T00:00:00Z
		}
		v.Set(reflect.ValueOf(g.timev()))
		return
	case rawType:
		if g.Rng.Intn(8) == 0 {
			return // nil RawMessage
		}
		v.Set(reflect.ValueOf(g.rawJSON(depth)))
		return
	case readerType:
		v.Set(reflect.ValueOf(io.Reader(strings.NewReader(g.str()))))
		return
	case readCloserType:
		v.Set(reflect.ValueOf(io.NopCloser(strings.NewReader(g.str()))))
		return
	}
	switch t.Kind() {
	case reflect.String:
		if f, _ := s["format"].(string); f == "date" && g.Tag == "" {
			// goag maps `format: date` to a plain string: the caller supplies a full-date
			v.SetString(fmt.Sprintf("%04d-%02d-%02d", 1+g.Rng.Intn(9999), 1+g.Rng.Intn(12), 1+g.Rng.Intn(28)))
		} else if !g.Zeroish {
			v.SetString(g.str())
		}
	case reflect.Bool:
		v.SetBool(!g.Zeroish && g.Rng.Intn(2) == 0)
	case reflect.Int, reflect.Int64, reflect.Int32, reflect.Float64, reflect.Float32:
		if g.Zeroish {
			return
		}
		g.fillNumber(v)
	default:
		g.fillContainer(v, s, depth)
	}
}

func (g *Gen) fillNumber(v reflect.Value) {
	switch v.Kind() {
	case reflect.Int, reflect.Int64:
		if g.HasTagInt {
			v.SetInt(g.TagInt)
		} else {
			v.SetInt(g.int64v(64))
		}
	case reflect.Int32:
		if g.HasTagInt {
			v.SetInt(g.TagInt % (1 << 30))
		} else {
			v.SetInt(g.int64v(32))
		}
	case reflect.Float64:
		v.SetFloat(g.float(64))
	case reflect.Float32:
		v.SetFloat(g.float(32))
	}
}

func (g *Gen) fillContainer(v reflect.Value, s oas.M, depth int) {
	t := v.Type()
	switch t.Kind() {
	case reflect.Slice:
		var items oas.M
		if s != nil {
			items = g.Doc.Schema(s["items"])
		}
		n := 0
		k := g.Rng.Intn(5)
		if g.Zeroish {
			k = 1 // empty, not nil
		}
		switch k {
		case 0:
			return // nil
		case 1:
			n = 0
		default:
			n = 1 + g.Rng.Intn(3)
		}
		if depth > 4 && n > 1 {
			n = 1
		}
		sl := reflect.MakeSlice(t, n, n)
		for i := 0; i < n; i++ {
			g.fill(sl.Index(i), items, depth+1)
		}
		v.Set(sl)
	case reflect.Map:
		n := g.Rng.Intn(3)
		if g.Zeroish {
			n = 0
		}
		m := reflect.MakeMap(t)
		for _, fk := range g.fieldKeys {
			// keys spelled like the holder's Go field names (see FieldKeys)
			if g.Rng.Intn(2) == 0 {
				k := reflect.New(t.Key()).Elem()
				k.SetString(fk)
				e := reflect.New(t.Elem()).Elem()
				g.fill(e, s, depth+1)
				m.SetMapIndex(k, e)
				n++
			}
		}
		g.fieldKeys = nil
		for i := 0; i < n; i++ {
			k := reflect.New(t.Key()).Elem()
			k.SetString(fmt.Sprintf("extra_%d_%s", i, g.mapKeyTail()))
			e := reflect.New(t.Elem()).Elem()
			g.fill(e, s, depth+1)
			m.SetMapIndex(k, e)
		}
		if n > 0 || g.Rng.Intn(2) == 0 {
			v.Set(m)
		}
	case reflect.Struct:
		g.fillStruct(v, s, depth)
	case reflect.Pointer:
		if g.Rng.Intn(3) != 0 {
			p := reflect.New(t.Elem())
			g.fill(p.Elem(), s, depth+1)
			v.Set(p)
		}
	case reflect.Interface:
		// leave nil
	}
}

func (g *Gen) mapKeyTail() string {
	if !g.Boundary {
		return "k"
	}
	return []string{"k", "k k", "ü", "a.b", "q\"uote", "b\\s", "c\x01tl", "del\x7f", "sep\u2028", "tab\t", "nl\n"}[g.Rng.Intn(11)]
}

func (g *Gen) fillStruct(v reflect.Value, s oas.M, depth int) {
	t := v.Type()
	if s == nil {
		// no schema guidance: fill by type alone
		for i := 0; i < t.NumField(); i++ {
			if v.Field(i).CanSet() {
				g.fill(v.Field(i), nil, depth+1)
			}
		}
		return
	}
	if members, ok := s["oneOf"].([]any); ok {
		// exactly one arm; field i <-> member i
		if t.NumField() != len(members) {
			g.Unmapped++
			return
		}
		i := g.Rng.Intn(len(members))
		ms := g.Doc.Schema(members[i])
		f := v.Field(i)
		if isWrapper(f.Type()) {
			f.Field(0).SetBool(true)
			g.fill(f.Field(1), ms, depth+1)
			g.fixDiscriminator(f.Field(1), s, members[i], ms)
		} else {
			g.fill(f, ms, depth+1)
		}
		return
	}
	ov, err := g.Doc.ObjectView(s)
	if err != nil {
		g.Unmapped++
		return
	}
	for i := 0; i < t.NumField(); i++ {
		sf := t.Field(i)
		f := v.Field(i)
		if !f.CanSet() {
			continue
		}
		switch {
		case sf.Anonymous:
			// allOf member embedded by type name
			var ms oas.M
			for _, m := range listOf(s["allOf"]) {
				mm, chain := g.Doc.Deref(m)
				if len(chain) > 0 && chain[0] == sf.Type.Name() {
					ms = mm
				}
			}
			if ms == nil {
				g.Unmapped++
			}
			g.fill(f, ms, depth+1)
		case sf.Name == "AdditionalProperties" && sf.Type.Kind() == reflect.Map:
			var as oas.M
			if ov.HasAddl {
				as = g.Doc.Schema(ov.Addl)
			}
			if g.FieldKeys && !g.Zeroish {
				for j := 0; j < t.NumField(); j++ {
					name := t.Field(j).Name
					if _, declared := ov.Props[name]; !declared && name != "AdditionalProperties" && !t.Field(j).Anonymous {
						g.fieldKeys = append(g.fieldKeys, name)
					}
				}
			}
			g.fill(f, as, depth+1)
			g.fieldKeys = nil
		default:
			var ps oas.M
			found := false
			for _, pn := range ov.Order {
				if normName(pn) == normName(sf.Name) {
					ps = g.Doc.Schema(ov.Props[pn])
					found = true
				}
			}
			if !found {
				g.Unmapped++
				if g.UnmappedNames == nil {
					g.UnmappedNames = map[string]int{}
				}
				g.UnmappedNames[t.Name()+"."+sf.Name]++
			}
			g.fill(f, ps, depth+1)
		}
	}
}

func listOf(v any) []any {
	l, _ := v.([]any)
	return l
}

// fixDiscriminator makes the discriminator property of the chosen arm name that arm.
func (g *Gen) fixDiscriminator(arm reflect.Value, oneOf oas.M, member any, ms oas.M) {
	disc, _ := oneOf["discriminator"].(map[string]any)
	if disc == nil || arm.Kind() != reflect.Struct {
		return
	}
	prop, _ := disc["propertyName"].(string)
	_, chain := g.Doc.Deref(member)
	if len(chain) == 0 {
		return
	}
	name := chain[0]
	keys := []string{name}
	if mp, ok := disc["mapping"].(map[string]any); ok {
		for k, v := range mp {
			if sv, _ := v.(string); strings.HasSuffix(sv, "/"+name) || sv == name {
				keys = append(keys, k)
			}
		}
	}
	idx, ok := fieldByNorm(arm.Type(), prop)
	if !ok {
		g.Unmapped++
		return
	}
	f := arm.Field(idx)
	for isWrapper(f.Type()) {
		f.Field(0).SetBool(true)
		f = f.Field(1)
	}
	if f.Kind() == reflect.String {
		// deterministic choice among the valid keys, seeded
		sortStrings(keys)
		f.SetString(keys[g.Rng.Intn(len(keys))])
	}
}

func sortStrings(s []string) {
	for i := 1; i < len(s); i++ {
		for j := i; j > 0 && s[j] < s[j-1]; j-- {
			s[j], s[j-1] = s[j-1], s[j]
		}
	}
}
