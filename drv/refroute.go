package drv

import "strings"

// Reference path matcher, written from the property text (C03), not from the
// templates of goag.

type RefTemplate struct {
	Path    string
	Segs    []string
	Methods map[string]bool
}

func splitSegs(p string) []string {
	// p starts with "/": "/a/b" -> [a b]; "/a/" -> [a ""]; "/" -> [""]
	return strings.Split(p, "/")[1:]
}

func isVar(seg string) bool {
	return len(seg) >= 2 && seg[0] == '{' && seg[len(seg)-1] == '}'
}

type RefRouter struct {
	Base      string
	Templates []RefTemplate
}

// Match returns the matching template path ("" if none) and the request
// segments beneath the base path.
func (rr *RefRouter) Match(method, path string) (string, []string) {
	if !strings.HasPrefix(path, rr.Base) {
		return "", nil
	}
	rest := path[len(rr.Base):]
	if !strings.HasPrefix(rest, "/") {
		return "", nil
	}
	segs := splitSegs(rest)
	best := -1
	for i, t := range rr.Templates {
		if !t.Methods[method] || len(t.Segs) != len(segs) {
			continue
		}
		ok := true
		for j, s := range t.Segs {
			if !isVar(s) && s != segs[j] {
				ok = false
				break
			}
		}
		if !ok {
			continue
		}
		if best < 0 || moreLiteral(t.Segs, rr.Templates[best].Segs) {
			best = i
		}
	}
	if best < 0 {
		return "", segs
	}
	return rr.Templates[best].Path, segs
}

// PathKnown reports whether some template matches the path regardless of method.
func (rr *RefRouter) PathTemplate(path string) (string, bool) {
	all := &RefRouter{Base: rr.Base}
	for _, t := range rr.Templates {
		all.Templates = append(all.Templates, RefTemplate{Path: t.Path, Segs: t.Segs, Methods: map[string]bool{"*": true}})
	}
	p, _ := all.Match("*", path)
	return p, p != ""
}

// moreLiteral: at the first position where exactly one of a, b is literal, a is the literal one.
func moreLiteral(a, b []string) bool {
	for i := range a {
		va, vb := isVar(a[i]), isVar(b[i])
		if va != vb {
			return !va
		}
	}
	return false
}

// TemplateMatches reports whether path (beneath base) fits the template segment for segment, ignoring preference.
func (rr *RefRouter) TemplateMatches(template, path string) bool {
	if !strings.HasPrefix(path, rr.Base) {
		return false
	}
	rest := path[len(rr.Base):]
	if !strings.HasPrefix(rest, "/") {
		return false
	}
	segs := splitSegs(rest)
	ts := splitSegs(template)
	if len(ts) != len(segs) {
		return false
	}
	for i, s := range ts {
		if !isVar(s) && s != segs[i] {
			return false
		}
	}
	return true
}
