package drv

import (
	"bytes"
	"encoding/json"
	"fmt"
	"io"
	"net/http"
	"net/url"
	"reflect"
	"strings"
	"unicode"

	"gopkg.in/yaml.v3"
)

func yamlToJSON(bs []byte) ([]byte, error) {
	var v any
	if err := yaml.Unmarshal(bs, &v); err != nil {
		return nil, err
	}
	return json.Marshal(convYAML(v))
}

func convYAML(v any) any {
	switch t := v.(type) {
	case map[string]any:
		o := map[string]any{}
		for k, x := range t {
			o[k] = convYAML(x)
		}
		return o
	case map[any]any:
		o := map[string]any{}
		for k, x := range t {
			o[fmt.Sprint(k)] = convYAML(x)
		}
		return o
	case []any:
		for i := range t {
			t[i] = convYAML(t[i])
		}
		return t
	}
	return v
}

// recWriter is the monitoring ResponseWriter: it counts WriteHeader calls,
// freezes the header map at the first one and captures the body.
type recWriter struct {
	hdr       http.Header
	Frozen    http.Header
	Status    int
	NWH       int // explicit WriteHeader calls
	Implicit  bool
	Body      bytes.Buffer
	WriteErr  error
	AfterHook func()
}

func newRec() *recWriter { return &recWriter{hdr: http.Header{}} }

func (w *recWriter) Header() http.Header { return w.hdr }

func (w *recWriter) WriteHeader(code int) {
	w.NWH++
	if w.Frozen == nil {
		w.Frozen = w.hdr.Clone()
		w.Status = code
	}
}

func (w *recWriter) Write(b []byte) (int, error) {
	if w.Frozen == nil {
		w.Frozen = w.hdr.Clone()
		w.Status = 200
		w.Implicit = true
	}
	if w.WriteErr != nil {
		return 0, w.WriteErr
	}
	return w.Body.Write(b)
}

// Responses counts how many times a response was started.
func (w *recWriter) Responses() int {
	n := w.NWH
	if w.Implicit {
		n++
	}
	return n
}

// NewRequest builds a server-side request the way net/http would hand it to
// a handler, without httptest (which panics on odd input).
func NewRequest(method, path, rawQuery string, hdr http.Header, body []byte) *http.Request {
	if hdr == nil {
		hdr = http.Header{}
	}
	var rc io.ReadCloser = http.NoBody
	if body != nil {
		rc = io.NopCloser(bytes.NewReader(body))
	}
	r := &http.Request{
		Method: method, URL: &url.URL{Path: path, RawQuery: rawQuery}, Proto: "HTTP/1.1", ProtoMajor: 1, ProtoMinor: 1,
		Header: hdr, Body: rc, Host: "example.com", RequestURI: path, ContentLength: int64(len(body)),
	}
	return r
}

// normName lower-cases and strips non-alphanumerics: page_size ~ PageSize.
func normName(s string) string {
	var b strings.Builder
	for _, r := range s {
		if unicode.IsLetter(r) || unicode.IsDigit(r) {
			b.WriteRune(unicode.ToLower(r))
		}
	}
	return b.String()
}

// fieldByNorm finds the struct field whose normalised name equals the
// normalised spec name; ok=false when absent or ambiguous.
func fieldByNorm(t reflect.Type, name string) (int, bool) {
	n := normName(name)
	idx := -1
	for i := 0; i < t.NumField(); i++ {
		if normName(t.Field(i).Name) == n {
			if idx >= 0 {
				return -1, false
			}
			idx = i
		}
	}
	return idx, idx >= 0
}

// isWrapper reports Maybe[T]/Nullable[T]-like structs: exactly IsSet bool + Value T.
func isWrapper(t reflect.Type) bool {
	if t.Kind() != reflect.Struct || t.NumField() != 2 {
		return false
	}
	f0, f1 := t.Field(0), t.Field(1)
	return f0.Name == "IsSet" && f0.Type.Kind() == reflect.Bool && f1.Name == "Value"
}

func wrapperKind(t reflect.Type) string {
	n := t.Name()
	switch {
	case strings.HasPrefix(n, "Maybe["):
		return "maybe"
	case strings.HasPrefix(n, "Nullable["):
		return "nullable"
	}
	return "wrapper"
}

var readerType = reflect.TypeOf((*io.Reader)(nil)).Elem()
var readCloserType = reflect.TypeOf((*io.ReadCloser)(nil)).Elem()

// fillReaders gives nil io.Reader / io.ReadCloser fields an empty reader so
// that generated Write code can copy from them.
func fillReaders(v reflect.Value) {
	if v.Kind() != reflect.Struct {
		return
	}
	for i := 0; i < v.NumField(); i++ {
		f := v.Field(i)
		if !f.CanSet() {
			continue
		}
		switch f.Type() {
		case readerType:
			if f.IsNil() {
				f.Set(reflect.ValueOf(io.Reader(strings.NewReader(""))))
			}
		case readCloserType:
			if f.IsNil() {
				f.Set(reflect.ValueOf(io.NopCloser(strings.NewReader(""))))
			}
		}
	}
}
