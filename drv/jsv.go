package drv

import (
	"encoding/json"
	"fmt"
	"math/big"
	"strings"
	"time"

	"verif/oas"
)

// jsv: a purpose-built validator for exactly the dialect's keywords
// (DESIGN §5.5): type, format (int32/int64 ranges, integer has no fraction,
// date-time = RFC 3339), properties, required, nullable, additionalProperties,
// items, allOf, oneOf (+discriminator), $ref. The value is generic JSON
// decoded with UseNumber.

type JSV struct{ Doc *oas.Doc }

// Validate returns the list of violations (empty = valid).
func (j *JSV) Validate(v any, schema any) []string {
	var errs []string
	j.validate(v, schema, "$", &errs, 0)
	return errs
}

func (j *JSV) validate(v any, schemaNode any, path string, errs *[]string, depth int) {
	if depth > 40 {
		*errs = append(*errs, path+": too deep")
		return
	}
	s := j.Doc.Schema(schemaNode)
	if s == nil {
		return // no schema: anything goes
	}
	add := func(format string, a ...any) {
		*errs = append(*errs, path+": "+fmt.Sprintf(format, a...))
	}
	if v == nil {
		if !oas.IsNullable(s) {
			// an untyped schema accepts null
			if oas.Kind(s) == "any" {
				return
			}
			add("null, but the schema is not nullable")
		}
		return
	}
	if all, ok := s["allOf"].([]any); ok {
		// all members against the same object; additional-property judgement
		// is made on the merged view
		obj, isObj := v.(map[string]any)
		if !isObj {
			add("allOf expects an object, got %s", jsonType(v))
			return
		}
		ov, err := j.Doc.ObjectView(s)
		if err != nil {
			add("bad allOf: %v", err)
			return
		}
		_ = all
		j.validateObject(obj, ov, path, errs, depth)
		return
	}
	if members, ok := s["oneOf"].([]any); ok {
		disc, _ := s["discriminator"].(map[string]any)
		if disc != nil {
			prop, _ := disc["propertyName"].(string)
			obj, isObj := v.(map[string]any)
			if !isObj {
				add("oneOf with discriminator expects an object, got %s", jsonType(v))
				return
			}
			key, _ := obj[prop].(string)
			target := ""
			if mp, ok := disc["mapping"].(map[string]any); ok {
				if t, ok := mp[key].(string); ok {
					target = t[strings.LastIndex(t, "/")+1:]
				}
			}
			if target == "" {
				target = key
			}
			for _, m := range members {
				_, chain := j.Doc.Deref(m)
				if len(chain) > 0 && chain[0] == target {
					j.validate(v, m, path, errs, depth+1)
					return
				}
			}
			add("discriminator %q = %q selects no member", prop, key)
			return
		}
		n := 0
		var first []string
		for _, m := range members {
			var e []string
			j.validate(v, m, path, &e, depth+1)
			if len(e) == 0 {
				n++
			} else if first == nil {
				first = e
			}
		}
		if n != 1 {
			add("matches %d oneOf members, exactly one expected (%v)", n, first)
		}
		return
	}
	typ, _ := s["type"].(string)
	format, _ := s["format"].(string)
	switch typ {
	case "":
		return
	case "string":
		sv, ok := v.(string)
		if !ok {
			add("string expected, got %s", jsonType(v))
			return
		}
		if format == "date" {
			if _, err := time.Parse("2006-01-02", sv); err != nil {
				add("not a full-date: %q", sv)
			}
		}
		if format == "date-time" {
			if _, err := time.Parse(time.RFC3339Nano, sv); err != nil {
				add("not an RFC 3339 date-time: %q", sv)
			}
		}
	case "boolean":
		if _, ok := v.(bool); !ok {
			add("boolean expected, got %s", jsonType(v))
		}
	case "integer":
		n, ok := v.(json.Number)
		if !ok {
			add("integer expected, got %s", jsonType(v))
			return
		}
		r, ok := new(big.Rat).SetString(string(n))
		if !ok || !r.IsInt() {
			add("integer expected, got %s", n)
			return
		}
		lim := big.NewInt(0)
		switch format {
		case "int32":
			lim.SetInt64(1 << 31)
		default:
			lim.SetString("9223372036854775808", 10)
		}
		z := r.Num()
		if z.Cmp(lim) >= 0 || z.Cmp(new(big.Int).Neg(lim)) < 0 {
			add("integer %s outside the range of its format", n)
		}
	case "number":
		if _, ok := v.(json.Number); !ok {
			add("number expected, got %s", jsonType(v))
		}
	case "array":
		l, ok := v.([]any)
		if !ok {
			add("array expected, got %s", jsonType(v))
			return
		}
		for i, e := range l {
			j.validate(e, s["items"], fmt.Sprintf("%s[%d]", path, i), errs, depth+1)
		}
	case "object":
		obj, ok := v.(map[string]any)
		if !ok {
			add("object expected, got %s", jsonType(v))
			return
		}
		ov, _ := j.Doc.ObjectView(s)
		j.validateObject(obj, ov, path, errs, depth)
	}
}

func (j *JSV) validateObject(obj map[string]any, ov oas.ObjectView, path string, errs *[]string, depth int) {
	for r := range ov.Required {
		if _, ok := obj[r]; !ok {
			*errs = append(*errs, fmt.Sprintf("%s: required property %q is missing", path, r))
		}
	}
	for k, v := range obj {
		if ps, ok := ov.Props[k]; ok {
			j.validate(v, ps, path+"."+k, errs, depth+1)
			continue
		}
		if ov.HasAddl {
			j.validate(v, ov.Addl, path+"."+k, errs, depth+1)
		}
		// OpenAPI: additional properties are allowed by default; the dialect's
		// encoder has no way to produce them without additionalProperties, so an
		// undeclared key in ENCODED output is reported by the caller (C07).
	}
}

// UndeclaredKeys lists keys of encoded output that the schema neither
// declares nor allows through additionalProperties ("property names are
// exactly the declared names").
func (j *JSV) UndeclaredKeys(v any, schemaNode any, path string, out *[]string, depth int) {
	if depth > 40 {
		return
	}
	s := j.Doc.Schema(schemaNode)
	if s == nil || v == nil {
		return
	}
	switch t := v.(type) {
	case []any:
		for i, e := range t {
			j.UndeclaredKeys(e, s["items"], fmt.Sprintf("%s[%d]", path, i), out, depth+1)
		}
	case map[string]any:
		if members, ok := s["oneOf"].([]any); ok {
			// judged against the member that validates
			for _, m := range members {
				if len(j.Validate(v, m)) == 0 {
					j.UndeclaredKeys(v, m, path, out, depth+1)
					return
				}
			}
			return
		}
		if oas.Kind(s) != "object" && oas.Kind(s) != "allOf" {
			return
		}
		ov, err := j.Doc.ObjectView(s)
		if err != nil {
			return
		}
		for k, e := range t {
			if ps, ok := ov.Props[k]; ok {
				j.UndeclaredKeys(e, ps, path+"."+k, out, depth+1)
			} else if ov.HasAddl {
				j.UndeclaredKeys(e, ov.Addl, path+"."+k, out, depth+1)
			} else {
				*out = append(*out, path+"."+k)
			}
		}
	}
}

func jsonType(v any) string {
	switch v.(type) {
	case nil:
		return "null"
	case bool:
		return "boolean"
	case string:
		return "string"
	case json.Number:
		return "number"
	case []any:
		return "array"
	case map[string]any:
		return "object"
	}
	return fmt.Sprintf("%T", v)
}
