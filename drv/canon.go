package drv

import (
	"net/http"
	"net/url"
	"reflect"
	"strings"

	"verif/oas"
)

// canonical request parts for an operation: every required parameter gets a
// must-accept lexeme of its type.

func canonText(s oas.M) string {
	k := oas.Kind(s)
	if k == "array" {
		return Canonical(oas.Kind(asM(s["items"]))).Text
	}
	return Canonical(k).Text
}

func asM(v any) oas.M {
	m, _ := v.(map[string]any)
	return m
}

func (c *Ctx) canonicalPath(op *Op) string {
	segs := splitSegs(op.Path)
	over := map[int]string{}
	for i, s := range segs {
		if isVar(s) {
			over[i] = Canonical(c.pathVarKind(op, s[1:len(s)-1])).Text
		}
	}
	return concrete(segs, over)
}

func (c *Ctx) canonicalQuery(op *Op) string {
	q := url.Values{}
	for _, p := range op.Spec.Params {
		if p.In == "query" && p.Required {
			s := p.Schema
			if oas.Kind(s) == "array" {
				s = c.Doc.Schema(s["items"])
			}
			q.Set(p.Name, Canonical(oas.Kind(s)).Text)
		}
	}
	return q.Encode()
}

func (c *Ctx) canonicalHeaders(op *Op) http.Header {
	h := http.Header{}
	for _, p := range op.Spec.Params {
		if p.In == "header" && p.Required {
			s := p.Schema
			if oas.Kind(s) == "array" {
				s = c.Doc.Schema(s["items"])
			}
			h.Set(p.Name, Canonical(oas.Kind(s)).Text)
		}
	}
	return h
}

// installAcceptAllAuth installs authenticators that accept every request.
func (c *Ctx) installAcceptAllAuth(api reflect.Value) {
	for _, f := range c.securityFields() {
		fv := api.Elem().FieldByName(f)
		fv.Set(reflect.MakeFunc(fv.Type(), func(args []reflect.Value) []reflect.Value {
			return []reflect.Value{args[0], reflect.ValueOf(true)}
		}))
	}
}

var _ = strings.TrimSpace

func oasKind(s map[string]any) string {
	k := oas.Kind(s)
	if k == "date" {
		return "string"
	}
	return k
}
