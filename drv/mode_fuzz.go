package drv

import (
	"bytes"
	"context"
	"errors"
	"fmt"
	"io"
	"net/http"
	"net/url"
	"reflect"
	"strings"
)

func init() { modes["fuzz"] = modeFuzz }

type errReader struct{ n int }

func (e *errReader) Read(p []byte) (int, error) {
	if e.n > 0 {
		e.n--
		if len(p) > 0 {
			p[0] = '{'
			return 1, nil
		}
	}
	return 0, errors.New("connection reset by peer")
}

// modeFuzz (C14): arbitrary requests against a fully populated API; handlers
// call Parse(), drain raw bodies and return a random documented response.
// Monitors: recover() around ServeHTTP and around Parse(), counting writer.
func modeFuzz(c *Ctx) {
	if len(c.Ops) == 0 {
		return
	}
	var parsePanic any
	g := &Gen{Rng: c.Rng, Doc: c.Doc}
	implsOf := map[string][]*respImpl{}
	for _, op := range c.Ops {
		implsOf[op.Key] = uniqueImpls(op)
	}
	api := c.NewAPI(func(op *Op) func(ctx context.Context, req reflect.Value) reflect.Value {
		return func(ctx context.Context, req reflect.Value) reflect.Value {
			var params reflect.Value
			func() {
				defer func() {
					if p := recover(); p != nil {
						parsePanic = p
					}
				}()
				var perr error
				params, perr = Parse(req)
				if perr != nil {
					// what a handler does with a parse error: render it, directly and
					// through fmt (fmt swallows a panicking Error method and prints it)
					msg := perr.Error()
					if s := fmt.Sprintf("%v", perr); strings.Contains(s, "%!v(PANIC=") || strings.Contains(msg, "%!") {
						panic("error value panics when rendered: " + s)
					}
					var pe interface{ Unwrap() error }
					if errors.As(perr, &pe) {
						if inner := pe.Unwrap(); inner != nil {
							_ = inner.Error()
						}
					}
				}
			}()
			if params.IsValid() {
				if b := params.FieldByName("Body"); b.IsValid() && (b.Type() == readerType || b.Type() == readCloserType) && !b.IsNil() {
					_, _ = io.Copy(io.Discard, b.Interface().(io.Reader))
				}
			}
			impls := implsOf[op.Key]
			if len(impls) == 0 {
				return reflect.Value{}
			}
			ri := impls[c.Rng.Intn(len(impls))]
			v := c.fillResponse(g, ri, nil)
			if ri.Ptr {
				p := reflect.New(ri.T)
				p.Elem().Set(v)
				return p
			}
			return v
		}
	})
	h := c.Handler(api)
	secFields := c.securityFields()
	setAuth := func(mode int) {
		for i, f := range secFields {
			fv := api.Elem().FieldByName(f)
			if mode == 0 || (mode == 2 && i%2 == 0) {
				fv.Set(reflect.Zero(fv.Type()))
				continue
			}
			fv.Set(reflect.MakeFunc(fv.Type(), func(args []reflect.Value) []reflect.Value {
				ok := args[1].String() != "bad"
				if !ok {
					return []reflect.Value{reflect.Zero(httpReqType), reflect.ValueOf(false)}
				}
				return []reflect.Value{args[0], reflect.ValueOf(true)}
			}))
		}
	}
	if fn, ok := c.Reg.Funcs["SpecFileHandler"]; ok {
		outs := reflect.ValueOf(fn).Call(nil)
		c.SetField(api, "SpecFileHandler", outs[0].Interface())
	}
	if cf := api.Elem().FieldByName("CORSHandler"); cf.IsValid() {
		cf.Set(reflect.MakeFunc(cf.Type(), func(args []reflect.Value) []reflect.Value {
			return []reflect.Value{reflect.ValueOf(http.Handler(http.HandlerFunc(func(w http.ResponseWriter, r *http.Request) { w.WriteHeader(204) })))}
		}))
	}
	nserved := 0
	serve := func(r *http.Request, what string) {
		parsePanic = nil
		nserved++
		if nserved%5 == 0 && r.Body != nil && r.Body != http.NoBody {
			// a body of unknown length (chunked transfer): net/http reports -1
			r.ContentLength = -1
			r.TransferEncoding = []string{"chunked"}
			what += ", chunked"
		}
		w := newRec()
		var pv any
		func() {
			defer func() { pv = recover() }()
			h.ServeHTTP(w, r)
		}()
		c.Stat("requests", 1)
		in := fmt.Sprintf("%s %q ?%q headers=%v (%s)", r.Method, trunc(r.URL.Path, 120), trunc(r.URL.RawQuery, 120), truncHeader(r.Header), what)
		if pv != nil {
			c.Viol("panic", "API.ServeHTTP panicked: "+firstLine(fmt.Sprint(pv)), in, "a response", fmt.Sprint(pv))
			return
		}
		if parsePanic != nil {
			c.Viol("panic", "Request.Parse() panicked: "+firstLine(fmt.Sprint(parsePanic)), in, "value or error", fmt.Sprint(parsePanic))
			return
		}
		if n := w.Responses(); n != 1 {
			c.Viol("write-count", fmt.Sprintf("a request was answered %d times instead of once", n), in, 1, n)
		}
	}
	methods := []string{"GET", "POST", "PUT", "DELETE", "PATCH", "OPTIONS", "HEAD", "TRACE", "CONNECT", "", "get", "G ET", "PROPFIND", strings.Repeat("X", 300)}
	segsWeird := []string{"", "a", "%", "%zz", "%2F", "..", ".", "\x00", "é", strings.Repeat("s", 5000), "a b", "{id}", "*", "7", "-1", "true", "null"}
	bodies := func(op *Op) []func() io.ReadCloser {
		mk := func(s string) func() io.ReadCloser {
			return func() io.ReadCloser { return io.NopCloser(strings.NewReader(s)) }
		}
		out := []func() io.ReadCloser{
			func() io.ReadCloser { return http.NoBody }, mk(""), mk("null"), mk("{}"), mk("[]"), mk("{"), mk(`{"a":`), mk(`"str"`), mk("12"), mk("true"),
			mk(strings.Repeat("[", 20000)), mk(strings.Repeat(`{"a":`, 5000)), mk("\xff\xfe\x00"), mk(strings.Repeat("x", 1<<20)),
			func() io.ReadCloser { return io.NopCloser(&errReader{n: 3}) },
			func() io.ReadCloser { return io.NopCloser(&errReader{}) },
		}
		if op != nil && op.Spec != nil && op.Spec.Body != nil && op.Spec.Body.JSON {
			dg := &DocGen{Doc: c.Doc, Rng: c.Rng}
			doc := EncodeDoc(dg.Valid(op.Spec.Body.RawSchema, 0), 0)
			out = append(out, mk(string(doc)))
			for _, cut := range []int{1, len(doc) / 2, len(doc) - 1} {
				if cut > 0 && cut < len(doc) {
					out = append(out, mk(string(doc[:cut])))
				}
			}
			out = append(out, mk(strings.ReplaceAll(string(doc), `"`, `'`)), mk(string(bytes.ToUpper(doc))))
		}
		return out
	}
	authVals := []string{"", "Bearer", "Bearer ", "bearer", "BEARER x", "Bearer good", "Bearer bad", "Basic Zm9v", "Bearer" + strings.Repeat("z", 9000), "B", "Bearer\t"}
	nPerOp := c.Case.Int("requests", 250)
	for authMode := 0; authMode < 3; authMode++ {
		setAuth(authMode)
		for _, op := range c.Ops {
			if op.Spec == nil {
				continue
			}
			c.Distinct("op:" + op.Key)
			canonPath := c.Base + c.canonicalPath(op)
			bs := bodies(op)
			// structured: truncations, doubled slashes, trailing slash, near misses
			var paths []string
			for i := 0; i <= len(canonPath); i++ {
				if i == len(canonPath) || canonPath[i] == '/' {
					paths = append(paths, canonPath[:i], canonPath[:i]+"/", canonPath[:i]+"//")
				}
			}
			paths = append(paths, strings.ReplaceAll(canonPath, "/", "//"), canonPath+"/extra", "*", "", "/", "//", strings.TrimPrefix(canonPath, "/"), canonPath+"%", c.Base, c.Base+"x")
			for _, p := range paths {
				for _, m := range []string{op.Method, "OPTIONS", "BREW"} {
					r := NewRequest(m, p, c.canonicalQuery(op), c.canonicalHeaders(op), nil)
					r.Body = bs[c.Rng.Intn(len(bs))]()
					serve(r, "structured path")
				}
			}
			for i := 0; i < nPerOp; i++ {
				// path: canonical with some segments replaced
				segs := splitSegs(op.Path)
				over := map[int]string{}
				for si, s := range segs {
					if isVar(s) {
						switch c.Rng.Intn(3) {
						case 0:
							over[si] = Canonical(c.pathVarKind(op, s[1:len(s)-1])).Text
						case 1:
							over[si] = segsWeird[c.Rng.Intn(len(segsWeird))]
						default:
							lx := Lexemes(c.pathVarKind(op, s[1:len(s)-1]))
							if len(lx) > 0 {
								over[si] = lx[c.Rng.Intn(len(lx))].Text
							} else {
								over[si] = "v"
							}
						}
					} else if c.Rng.Intn(12) == 0 {
						over[si] = segsWeird[c.Rng.Intn(len(segsWeird))]
					}
				}
				path := c.Base + concrete(segs, over)
				if c.Rng.Intn(15) == 0 {
					path = path[:c.Rng.Intn(len(path)+1)]
				}
				// query
				q := url.Values{}
				hd := http.Header{}
				for _, p := range op.Spec.Params {
					kind := "string"
					if p.Schema != nil {
						kind = kindOfParam(c, p.Schema)
					}
					lx := Lexemes(kind)
					n := c.Rng.Intn(4)
					if p.Required && n == 0 && c.Rng.Intn(3) != 0 {
						n = 1
					}
					for k := 0; k < n; k++ {
						v := "x"
						if len(lx) > 0 {
							v = lx[c.Rng.Intn(len(lx))].Text
						}
						if c.Rng.Intn(10) == 0 {
							v = segsWeird[c.Rng.Intn(len(segsWeird))]
						}
						switch p.In {
						case "query":
							q.Add(p.Name, v)
						case "header":
							hd.Add(p.Name, v)
						}
					}
				}
				raw := q.Encode()
				switch c.Rng.Intn(12) {
				case 0:
					raw = "%zz&&&==&a;b=c"
				case 1:
					raw = strings.Repeat("k=v&", 3000)
				case 2:
					raw += "&%"
				}
				if c.Rng.Intn(3) == 0 {
					hd["Authorization"] = []string{authVals[c.Rng.Intn(len(authVals))]}
				}
				if c.Rng.Intn(20) == 0 {
					hd["Authorization"] = []string{}
				}
				for _, s := range c.Doc.Schemes() {
					if s.Type == "apiKey" && s.In == "header" && c.Rng.Intn(3) == 0 {
						hd[http.CanonicalHeaderKey(s.Name)] = []string{[]string{"", "good", "bad"}[c.Rng.Intn(3)]}
					}
				}
				if c.Rng.Intn(8) == 0 {
					hd["Content-Type"] = []string{[]string{"", "text/plain", "application/json; charset=utf-8", "\x00"}[c.Rng.Intn(4)]}
				}
				m := op.Method
				if c.Rng.Intn(10) == 0 {
					m = methods[c.Rng.Intn(len(methods))]
				}
				r := NewRequest(m, path, raw, hd, nil)
				r.Body = bs[c.Rng.Intn(len(bs))]()
				serve(r, "seeded")
			}
		}
		// the spec route and foreign paths
		for _, p := range []string{c.Base + "/" + c.Case.SpecName, c.Base + "/openapi.yaml", "/favicon.ico"} {
			for _, m := range methods {
				serve(NewRequest(m, p, "", nil, nil), "spec / foreign")
			}
		}
	}
	// the optional hooks left at their zero value: the spec route, unrouted
	// requests and preflights with nothing installed
	specName := c.Case.SpecName
	if specName == "" {
		specName = "openapi.yaml"
	}
	for _, f := range []string{"SpecFileHandler", "NotFoundHandler", "CORSHandler"} {
		if fv := api.Elem().FieldByName(f); fv.IsValid() && fv.CanSet() {
			fv.Set(reflect.Zero(fv.Type()))
		}
	}
	for _, p := range []string{c.Base + "/" + specName, "/" + specName, c.Base + "/" + specName + "/", c.Base + "//" + specName, "/nowhere", c.Base, c.Base + "/"} {
		for _, m := range []string{"GET", "HEAD", "POST", "OPTIONS", "BREW"} {
			serve(NewRequest(m, p, "", nil, nil), "optional hooks not installed")
			c.Stat("requests_without_optional_hooks", 1)
		}
	}
	for _, op := range c.Ops {
		if op.Spec != nil {
			serve(NewRequest("OPTIONS", c.Base+c.canonicalPath(op), "", nil, nil), "optional hooks not installed")
		}
	}
	// every operation's handler function is an http.Handler of its own (users
	// mount them on other muxes, behind path-rewriting middlewares): whatever
	// path arrives there, Parse returns a value or an error
	for _, op := range c.Ops {
		if op.Spec == nil {
			continue
		}
		hf, ok := api.Elem().Field(op.FieldIndex).Interface().(http.Handler)
		if !ok {
			continue
		}
		canonPath := c.Base + c.canonicalPath(op)
		var paths []string
		for i := 0; i <= len(canonPath); i++ {
			paths = append(paths, canonPath[:i])
			if i == len(canonPath) || canonPath[i] == '/' {
				paths = append(paths, canonPath[:i]+"/", canonPath[:i]+"//", canonPath[:i]+"/x/y/z")
			}
		}
		paths = append(paths, "*", "/", "//", strings.TrimPrefix(canonPath, "/"), strings.ReplaceAll(canonPath, "/", "//"), "/somewhere/else/entirely")
		for _, p := range paths {
			r := NewRequest(op.Method, p, c.canonicalQuery(op), c.canonicalHeaders(op), nil)
			w := newRec()
			var pv any
			parsePanic = nil
			func() {
				defer func() { pv = recover() }()
				hf.ServeHTTP(w, r)
			}()
			c.Stat("direct_handler_requests", 1)
			in := fmt.Sprintf("%s %q served by %s itself (not through the router)", op.Method, p, op.FieldName)
			if pv == nil {
				pv = parsePanic
			}
			if pv != nil {
				c.Viol("panic", "Request.Parse() panicked: "+firstLine(fmt.Sprint(pv)), in, "value or error", fmt.Sprint(pv))
			}
		}
	}
}

func kindOfParam(c *Ctx, s map[string]any) string {
	k := oasKind(s)
	if k == "array" {
		return oasKind(c.Doc.Schema(s["items"]))
	}
	return k
}

func truncHeader(h http.Header) string {
	s := fmt.Sprint(map[string][]string(h))
	return trunc(s, 200)
}
