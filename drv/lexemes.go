package drv

import (
	"math"
	"math/big"
	"strconv"
	"time"
)

// Lexeme tables (DESIGN §5.2). Class: "accept" (must accept, Value is the
// reference typed value), "reject" (must reject), "dontcare" (OpenAPI is
// silent and Go is liberal: observed, never judged on accept/reject).
type Lexeme struct {
	Text  string
	Class string
	Value any // accept: *big.Int (integers), float64, float32, bool, time.Time, string
}

func bi(s string) *big.Int {
	z, _ := new(big.Int).SetString(s, 10)
	return z
}

func mustTime(s string) time.Time {
	t, err := time.Parse(time.RFC3339Nano, s)
	if err != nil {
		panic(err)
	}
	return t
}

// Lexemes returns the table for a schema kind (oas.Kind).
func Lexemes(kind string) []Lexeme {
	switch kind {
	case "string":
		var out []Lexeme
		for _, s := range []string{"abc", "0", "a b", "ünï", "a/b", "%41", "x&y=z", "null", "true", "1e3", " lead", "trail ", "\"q\"", "{}"} {
			out = append(out, Lexeme{s, "accept", s})
		}
		return out
	case "integer", "int64", "int32":
		var out []Lexeme
		acc := []string{"0", "7", "-1", "42", "2147483647", "-2147483648"}
		rej := []string{"", "abc", "null", "1x", "--1", " 1", "1 ", "1.5", "1e3", "0x10", "1_000", "९", "99999999999999999999", "-99999999999999999999"}
		if kind == "int32" {
			rej = append(rej, "2147483648", "-2147483649", "9223372036854775807")
		} else {
			acc = append(acc, "2147483648", "-2147483649", "9223372036854775807", "-9223372036854775808")
			rej = append(rej, "9223372036854775808", "-9223372036854775809")
		}
		for _, s := range acc {
			out = append(out, Lexeme{s, "accept", bi(s)})
		}
		for _, s := range rej {
			out = append(out, Lexeme{s, "reject", nil})
		}
		for _, s := range []string{"+5", "007", "-0", "+0"} {
			out = append(out, Lexeme{s, "dontcare", nil})
		}
		return out
	case "number", "double", "float":
		var out []Lexeme
		acc := []string{"0", "1", "-1", "1.5", "-2.25", "1e3", "1E-3", "3.4028235e38", "0.1", "100"}
		rej := []string{"", "abc", "1x", "--1", " 1", "1 ", "1,5", "1.2.3", "e5", "1e", "0x"}
		if kind == "float" {
			rej = append(rej, "3.5e38", "1e39", "-1e39", "1e400")
		} else {
			acc = append(acc, "1e39", "1.7976931348623157e308", "5e-324")
			rej = append(rej, "1e400", "-1e400")
		}
		for _, s := range acc {
			f, _ := strconv.ParseFloat(s, 64)
			if kind == "float" {
				f32, _ := strconv.ParseFloat(s, 32)
				out = append(out, Lexeme{s, "accept", float32(f32)})
			} else {
				out = append(out, Lexeme{s, "accept", f})
			}
		}
		for _, s := range rej {
			out = append(out, Lexeme{s, "reject", nil})
		}
		for _, s := range []string{"+5", ".5", "5.", "NaN", "Inf", "-Inf", "+Inf", "infinity", "0x1p-2", "-0", "1e-400", "1_0.5"} {
			out = append(out, Lexeme{s, "dontcare", nil})
		}
		return out
	case "boolean":
		return []Lexeme{
			{"true", "accept", true}, {"false", "accept", false},
			{"", "reject", nil}, {"yes", "reject", nil}, {"no", "reject", nil}, {"2", "reject", nil}, {"tru", "reject", nil}, {" true", "reject", nil}, {"truee", "reject", nil}, {"on", "reject", nil}, {"null", "reject", nil},
			{"T", "dontcare", nil}, {"F", "dontcare", nil}, {"1", "dontcare", nil}, {"0", "dontcare", nil}, {"TRUE", "dontcare", nil}, {"False", "dontcare", nil}, {"t", "dontcare", nil}, {"f", "dontcare", nil}, {"True", "dontcare", nil}, {"FALSE", "dontcare", nil},
		}
	case "date-time":
		var out []Lexeme
		for _, s := range []string{"2020-01-02T03:04:05Z", "2020-01-02T03:04:05+02:00", "2020-01-02T03:04:05.123456789Z", "1999-12-31T23:59:59-11:30", "2024-02-29T00:00:00Z", "0001-01-01T00:00:00Z", "9999-12-31T23:59:59Z"} {
			out = append(out, Lexeme{s, "accept", mustTime(s)})
		}
		for _, s := range []string{"", "abc", "2020-01-02", "03:04:05Z", "2020-01-02T03:04:05", "2020-13-01T00:00:00Z", "2020-02-30T00:00:00Z", "2020-01-02T24:00:00Z", "2020-01-02T03:04:05Z ", " 2020-01-02T03:04:05Z", "2020-01-02 03:04:05Z", "1577934245", "2023-02-29T00:00:00Z", "2020-01-02T03:60:05Z",
			// what an unencoded '+' of the offset turns into in a query string, and friends
			"2020-01-02T03:04:05 02:00", "2020-01-02T03:04:05 0200", "2020-01-02T03:04:05+0200", "Thu, 02 Jan 2020 03:04:05 GMT", "2020-01-02T03:04:05Z+02:00"} {
			out = append(out, Lexeme{s, "reject", nil})
		}
		for _, s := range []string{"2020-01-02t03:04:05z", "2020-01-02T03:04:05z", "2020-01-02T03:04:60Z", "2020-01-02T03:04:05,5Z", "2020-01-02T3:04:05Z", "2020-01-02T03:04:05+24:00"} {
			out = append(out, Lexeme{s, "dontcare", nil})
		}
		return out
	}
	return nil
}

// Canonical returns one must-accept lexeme of the kind.
func Canonical(kind string) Lexeme {
	for _, l := range Lexemes(kind) {
		if l.Class == "accept" {
			return l
		}
	}
	return Lexeme{"x", "accept", "x"}
}

// sameTyped compares a reflected Go value with the reference value of a lexeme.
func sameTyped(got any, want any) bool {
	switch w := want.(type) {
	case *big.Int:
		switch g := got.(type) {
		case int:
			return big.NewInt(int64(g)).Cmp(w) == 0
		case int32:
			return big.NewInt(int64(g)).Cmp(w) == 0
		case int64:
			return big.NewInt(g).Cmp(w) == 0
		}
	case float64:
		if g, ok := got.(float64); ok {
			return g == w || (math.IsNaN(g) && math.IsNaN(w))
		}
	case float32:
		if g, ok := got.(float32); ok {
			return g == w
		}
	case bool:
		if g, ok := got.(bool); ok {
			return g == w
		}
	case string:
		if g, ok := got.(string); ok {
			return g == w
		}
	case time.Time:
		if g, ok := got.(time.Time); ok {
			return g.Equal(w)
		}
	}
	return false
}
