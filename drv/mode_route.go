package drv

import (
	"context"
	"fmt"
	"net/http"
	"reflect"
	"regexp"
	"strconv"
	"strings"
	"time"

	"verif/oas"
)

func init() { modes["route"] = modeRoute }

// trace events of one request
type trace struct {
	ev       []string
	opKey    string
	opRuns   int
	parseErr error
	params   reflect.Value
	nfRuns   int
	specRuns int
	corsRuns int
	corsArgs [2][]string
	schema   []string // SchemaPath seen by each middleware ("path|ok")
	ctxTags  []string
	inner    []string // SchemaPath seen by the authenticators and by the handler ("who:path|ok")
}

type ctxTagKey struct{}

func (c *Ctx) refRouter() *RefRouter {
	rr := &RefRouter{Base: c.Base}
	byPath := map[string]*RefTemplate{}
	for _, op := range c.Doc.Operations() {
		t := byPath[op.Path]
		if t == nil {
			rr.Templates = append(rr.Templates, RefTemplate{Path: op.Path, Segs: splitSegs(op.Path), Methods: map[string]bool{}})
			t = &rr.Templates[len(rr.Templates)-1]
			byPath[op.Path] = t
			// re-point earlier pointers (slice may have moved)
			for i := range rr.Templates {
				byPath[rr.Templates[i].Path] = &rr.Templates[i]
			}
		}
		t.Methods[op.Method] = true
	}
	return rr
}

// securityFields lists the API's authenticator fields.
func (c *Ctx) securityFields() []string {
	var out []string
	api := c.Reg.Types["API"]
	for i := 0; i < api.NumField(); i++ {
		if strings.HasPrefix(api.Field(i).Name, "Security") {
			out = append(out, api.Field(i).Name)
		}
	}
	return out
}

// credentials adds a valid credential for every supported scheme of the spec.
func (c *Ctx) addAllCredentials(r *http.Request, token string) {
	q := r.URL.Query()
	for _, s := range c.Doc.Schemes() {
		switch {
		case s.Type == "http" && strings.EqualFold(s.Scheme, "bearer"):
			r.Header.Set("Authorization", "Bearer "+token)
		case s.Type == "apiKey" && s.In == "header":
			r.Header.Set(s.Name, token)
		case s.Type == "apiKey" && s.In == "query":
			q.Set(s.Name, token)
		}
	}
	r.URL.RawQuery = q.Encode()
}

func modeRoute(c *Ctx) {
	if len(c.Ops) == 0 {
		return
	}
	rr := c.refRouter()
	k := c.Case.Int("middlewares", 2)
	specName := c.Case.SpecName
	if specName == "" {
		specName = "openapi.yaml"
	}
	specPath := c.Base + "/" + specName
	secFields := c.securityFields()
	opSecured := map[string]bool{}
	for _, op := range c.Ops {
		if op.Spec != nil && len(c.Doc.EffectiveSecurity(*op.Spec)) > 0 {
			opSecured[op.Key] = true
			for _, alt := range c.Doc.EffectiveSecurity(*op.Spec) {
				if len(alt) == 0 {
					opSecured[op.Key] = false // an alternative that asks for nothing
				}
			}
		}
	}
	hasCORS := c.Case.Cors

	var tr *trace
	api := c.NewAPI(func(op *Op) func(ctx context.Context, req reflect.Value) reflect.Value {
		return func(ctx context.Context, req reflect.Value) reflect.Value {
			tr.ev = append(tr.ev, "op")
			tr.opKey = op.Key
			tr.opRuns++
			tr.params, tr.parseErr = Parse(req)
			if tags, ok := ctx.Value(ctxTagKey{}).([]string); ok {
				tr.ctxTags = tags
			}
			if hr := req.MethodByName("HTTP"); hr.IsValid() {
				if r, ok := hr.Call(nil)[0].Interface().(*http.Request); ok && r != nil {
					if fn, has := c.Reg.Funcs["SchemaPath"]; has {
						outs := reflect.ValueOf(fn).Call([]reflect.Value{reflect.ValueOf(r)})
						tr.inner = append(tr.inner, fmt.Sprintf("handler:%s|%v", outs[0].String(), outs[1].Bool()))
					}
				}
			}
			return reflect.Value{}
		}
	})
	var mws []func(http.Handler) http.Handler
	for i := 0; i < k; i++ {
		i := i
		mws = append(mws, func(next http.Handler) http.Handler {
			return http.HandlerFunc(func(w http.ResponseWriter, r *http.Request) {
				tr.ev = append(tr.ev, fmt.Sprintf("enter%d", i))
				var sp string
				var ok bool
				if fn, has := c.Reg.Funcs["SchemaPath"]; has {
					outs := reflect.ValueOf(fn).Call([]reflect.Value{reflect.ValueOf(r)})
					sp, ok = outs[0].String(), outs[1].Bool()
				}
				tr.schema = append(tr.schema, fmt.Sprintf("%s|%v", sp, ok))
				next.ServeHTTP(w, r)
				tr.ev = append(tr.ev, fmt.Sprintf("leave%d", i))
			})
		})
	}
	c.SetField(api, "Middlewares", mws)
	nf := http.HandlerFunc(func(w http.ResponseWriter, r *http.Request) {
		tr.ev = append(tr.ev, "notfound")
		tr.nfRuns++
		w.WriteHeader(404)
	})
	specH := http.HandlerFunc(func(w http.ResponseWriter, r *http.Request) {
		tr.ev = append(tr.ev, "spec")
		tr.specRuns++
		w.WriteHeader(200)
	})
	// authenticators: accept iff token == "good"
	for _, f := range secFields {
		f := f
		ft := api.Elem().FieldByName(f).Type()
		fn := reflect.MakeFunc(ft, func(args []reflect.Value) []reflect.Value {
			tr.ev = append(tr.ev, "auth")
			r := args[0].Interface().(*http.Request)
			if fn, has := c.Reg.Funcs["SchemaPath"]; has && r != nil {
				outs := reflect.ValueOf(fn).Call([]reflect.Value{reflect.ValueOf(r)})
				tr.inner = append(tr.inner, fmt.Sprintf("auth:%s|%v", outs[0].String(), outs[1].Bool()))
			}
			ok := args[1].String() == "good"
			if !ok {
				return []reflect.Value{reflect.Zero(httpReqType), reflect.ValueOf(false)}
			}
			return []reflect.Value{reflect.ValueOf(r), reflect.ValueOf(true)}
		})
		api.Elem().FieldByName(f).Set(fn)
	}
	if hasCORS {
		cf := api.Elem().FieldByName("CORSHandler")
		if cf.IsValid() {
			cf.Set(reflect.MakeFunc(cf.Type(), func(args []reflect.Value) []reflect.Value {
				tr.corsArgs[0] = append([]string{}, args[0].Interface().([]string)...)
				tr.corsArgs[1] = append([]string{}, args[1].Interface().([]string)...)
				h := http.HandlerFunc(func(w http.ResponseWriter, r *http.Request) {
					tr.ev = append(tr.ev, "cors")
					tr.corsRuns++
					w.WriteHeader(204)
				})
				return []reflect.Value{reflect.ValueOf(http.Handler(h))}
			}))
		}
	}
	handler := c.Handler(api)

	// declared methods per template for the CORS pseudo operation
	pathMethods := map[string]map[string]bool{}
	rrCors := &RefRouter{Base: rr.Base}
	for _, t := range rr.Templates {
		pathMethods[t.Path] = t.Methods
		ms := map[string]bool{"OPTIONS": true}
		for m := range t.Methods {
			ms[m] = true
		}
		rrCors.Templates = append(rrCors.Templates, RefTemplate{Path: t.Path, Segs: t.Segs, Methods: ms})
	}

	corsInstalled := true
	var corsFn reflect.Value
	if hasCORS {
		if cf := api.Elem().FieldByName("CORSHandler"); cf.IsValid() {
			corsFn = reflect.ValueOf(cf.Interface())
		}
	}
	overEscape := false
	serve := func(method, path string, withCreds bool, nfInstalled, specInstalled bool) {
		tr = &trace{}
		if hasCORS && corsFn.IsValid() {
			cf := api.Elem().FieldByName("CORSHandler")
			if corsInstalled {
				cf.Set(corsFn)
			} else {
				cf.Set(reflect.Zero(cf.Type()))
			}
		}
		if nfInstalled {
			c.SetField(api, "NotFoundHandler", http.Handler(nf))
		} else {
			c.SetField(api, "NotFoundHandler", nil)
		}
		if specInstalled {
			c.SetField(api, "SpecFileHandler", http.Handler(specH))
		} else {
			c.SetField(api, "SpecFileHandler", nil)
		}
		r := NewRequest(method, path, "", nil, nil)
		if overEscape {
			// the same decoded path, but sent with needlessly percent-encoded octets
			// (net/http then fills URL.RawPath); routing and parsing go by the decoded path
			var b strings.Builder
			for i := 0; i < len(path); i++ {
				ch := path[i]
				if (ch >= 'a' && ch <= 'z') && i%2 == 1 {
					fmt.Fprintf(&b, "%%%02X", ch)
				} else if ch == ' ' {
					b.WriteString("%20")
				} else {
					b.WriteByte(ch)
				}
			}
			r.URL.RawPath = b.String()
			r.RequestURI = b.String()
		}
		if withCreds {
			c.addAllCredentials(r, "good")
		}
		w := newRec()
		func() {
			defer func() {
				if p := recover(); p != nil {
					c.Viol("panic", "serving a request panicked: "+firstLine(fmt.Sprint(p)), method+" "+path, nil, nil)
					tr.ev = append(tr.ev, "PANIC")
				}
			}()
			handler.ServeHTTP(w, r)
		}()
		c.Stat("requests", 1)
		in := fmt.Sprintf("%s %s (creds=%v, notfound handler=%v, spec handler=%v, middlewares=%d)", method, path, withCreds, nfInstalled, specInstalled, k)
		// ---- reference
		wantTemplate, segs := rr.Match(method, path)
		if specInstalled && path == specPath {
			c.Stat("spec_requests", 1)
			if tr.specRuns != 1 || len(tr.ev) != 1 {
				c.Viol("spec-route", "request for the spec file did not reach the spec handler alone", in, "[spec]", tr.ev)
			}
			return
		}
		if hasCORS && corsInstalled && method == http.MethodOptions {
			// with a CORS handler installed every declared path without its own
			// OPTIONS has a pseudo-operation for OPTIONS, which takes part in
			// matching like any other operation (literal segments preferred)
			if tp, _ := rrCors.Match(method, path); tp != "" && !pathMethods[tp]["OPTIONS"] {
				c.Stat("cors_preflight", 1)
				if tr.corsRuns != 1 || len(tr.ev) != 1 {
					c.Viol("cors-bypass", "CORS preflight to a declared path was not answered by the CORS handler alone (no middlewares)", in, "[cors]", tr.ev)
				}
				return
			}
		}
		if wantTemplate == "" {
			c.Stat("notfound", 1)
			if tr.opRuns > 0 {
				c.Viol("misdispatch", "operation ran for a request that matches no template+method", in, "not found", tr.opKey)
				// dispatched all the same: the path parameters are then still the
				// segments at the template positions of the operation that ran (C05)
				if op := c.OpByKey(tr.opKey); op != nil && tr.opRuns == 1 {
					rs := splitSegs(strings.TrimPrefix(path, c.Base))
					ts := splitSegs(op.Path)
					for len(rs) < len(ts) {
						rs = append(rs, "")
					}
					c.checkPathParams(in, tr.opKey, op.Path, rs[:len(ts)], tr)
				}
				return
			}
			if nfInstalled {
				if tr.nfRuns != 1 || len(tr.ev) != 1 {
					c.Viol("notfound-trace", "unrouted request did not go to the not-found handler alone", in, "[notfound]", tr.ev)
				}
			} else if w.Status != 404 || len(tr.ev) != 0 {
				c.Viol("notfound-trace", "unrouted request without NotFoundHandler was not a plain 404", in, "404, no events", fmt.Sprint(w.Status, tr.ev))
			}
			return
		}
		wantKey := method + " " + wantTemplate
		c.Stat("dispatched", 1)
		c.Distinct("dispatch:" + wantKey)
		secured := opSecured[wantKey]
		expectOp := !secured || withCreds
		if tr.opRuns == 0 && tr.nfRuns > 0 {
			c.Viol("misdispatch", "request matching a template+method went to the not-found handler", in, wantKey, "not found")
			return
		}
		if tr.opRuns > 0 && tr.opKey != wantKey {
			c.Viol("misdispatch", "request dispatched to another operation than the reference matcher's", in, wantKey, tr.opKey)
			return
		}
		// ---- C16 trace shape
		var want []string
		for i := 0; i < k; i++ {
			want = append(want, fmt.Sprintf("enter%d", i))
		}
		got := make([]string, 0, len(tr.ev))
		nAuth := 0
		for _, e := range tr.ev {
			if e == "auth" {
				nAuth++
				continue
			}
			got = append(got, e)
		}
		if expectOp {
			want = append(want, "op")
		}
		for i := k - 1; i >= 0; i-- {
			want = append(want, fmt.Sprintf("leave%d", i))
		}
		if strings.Join(got, ",") != strings.Join(want, ",") {
			c.Viol("trace-shape", "middleware / handler trace of a routed request has the wrong shape", in, want, tr.ev)
		} else if secured {
			// auth events only between the last enter and op
			seenEnter := 0
			okPos := true
			for _, e := range tr.ev {
				switch {
				case strings.HasPrefix(e, "enter"):
					seenEnter++
				case e == "auth":
					if seenEnter != k {
						okPos = false
					}
				case e == "op" || strings.HasPrefix(e, "leave"):
					seenEnter = -1 << 20
				}
			}
			if !okPos || (nAuth == 0 && withCreds) {
				c.Viol("trace-shape", "security check did not run inside all middlewares", in, "enter* auth+ op leave*", tr.ev)
			}
			if !expectOp && w.Status != 401 {
				c.Viol("status-401", "refused request was not answered 401", in, 401, w.Status)
			}
		} else if nAuth > 0 {
			c.Viol("trace-shape", "authenticator ran for a public operation", in, want, tr.ev)
		}
		for i, sp := range tr.schema {
			if sp != wantTemplate+"|true" {
				c.Viol("schema-path", "SchemaPath seen by a middleware is not the matched template", in, wantTemplate+"|true", fmt.Sprintf("mw%d: %s", i, sp))
				break
			}
		}
		// the template is that of the dispatched request for everything inside the
		// middlewares as well (whether or not any middleware is installed)
		for _, sp := range tr.inner {
			if !strings.HasSuffix(sp, ":"+wantTemplate+"|true") {
				c.Viol("schema-path", "SchemaPath seen by the authenticator / handler of a dispatched request is not the matched template", in, wantTemplate+"|true", sp)
				break
			}
		}
		// ---- C05 path parameters
		if tr.opRuns == 1 {
			c.checkPathParams(in, wantKey, wantTemplate, segs, tr)
		}
	}

	// ---- the request universe
	alpha := []string{"a", "b", "zz", "7", ""}
	depth := c.Case.Int("depth", 5)
	var paths []string
	var rec func(cur string, d int)
	rec = func(cur string, d int) {
		if d > 0 {
			paths = append(paths, cur)
		}
		if d == depth {
			return
		}
		for _, s := range alpha {
			rec(cur+"/"+s, d+1)
		}
	}
	rec("", 0)
	methods := map[string]bool{}
	for _, t := range rr.Templates {
		for m := range t.Methods {
			methods[m] = true
		}
	}
	undeclared := "PATCH"
	for _, m := range []string{"PATCH", "DELETE", "PUT", "TRACE", "HEAD"} {
		if !methods[m] {
			undeclared = m
			break
		}
	}
	ml := append(sortedKeys(methods), undeclared)
	// HEAD is no alias of GET and method names are case-sensitive: both are
	// ordinary undeclared methods unless the path declares them
	for _, m := range []string{"HEAD", "get"} {
		if !methods[m] && m != undeclared {
			ml = append(ml, m)
		}
	}
	if hasCORS && !methods["OPTIONS"] {
		ml = append(ml, "OPTIONS")
	}
	nreq := 0
	for _, p := range paths {
		for _, m := range ml {
			nreq++
			serve(m, c.Base+p, true, true, nreq%7 == 0)
		}
	}
	// not-found handler nil, no credentials, base-path near misses, spec path
	var near []string
	if c.Base != "" {
		near = append(near, c.Base, c.Base+"x/a", strings.TrimSuffix(c.Base, c.Base[len(c.Base)-1:])+"/a", c.Base[1:]+"/a", "/a", "/a/b", c.Base+c.Base+"/a", c.Base+"//a")
		for _, t := range rr.Templates {
			// the template itself without the base path, and with the base as plain prefix
			near = append(near, concrete(t.Segs, nil), c.Base+strings.TrimPrefix(concrete(t.Segs, nil), "/"))
		}
	}
	near = append(near, "", "/", "//", "*", "a", specPath, specPath+"/", "/"+specName)
	for _, p := range near {
		for _, m := range ml {
			serve(m, p, true, true, true)
			serve(m, p, true, false, false)
		}
	}
	for i, p := range paths {
		if i%5 != 0 {
			continue
		}
		for _, m := range ml {
			serve(m, c.Base+p, false, i%2 == 0, false)
		}
	}
	// percent-encoded request targets: same decoded path, non-empty RawPath
	overEscape = true
	for i, p := range paths {
		if i%6 == 0 {
			for _, m := range ml {
				serve(m, c.Base+p, true, true, false)
			}
		}
	}
	for _, op := range c.Ops {
		serve(op.Method, c.Base+c.canonicalPath(op), true, true, false)
	}
	overEscape = false
	// the stack is replaced on the live API value: later requests must see the new stack
	if k > 0 {
		rev := make([]func(http.Handler) http.Handler, 0, k+2)
		for i := k - 1; i >= 1; i-- {
			rev = append(rev, mws[i])
		}
		c.SetField(api, "Middlewares", rev)
		origK := k
		// the trace checker numbers middlewares by their position in the CURRENT stack:
		// rebuild instrumented middlewares for the new stack
		var mws2 []func(http.Handler) http.Handler
		for i := 0; i < origK-1; i++ {
			i := i
			mws2 = append(mws2, func(next http.Handler) http.Handler {
				return http.HandlerFunc(func(w http.ResponseWriter, r *http.Request) {
					tr.ev = append(tr.ev, fmt.Sprintf("enter%d", i))
					var sp string
					var ok bool
					if fn, has := c.Reg.Funcs["SchemaPath"]; has {
						outs := reflect.ValueOf(fn).Call([]reflect.Value{reflect.ValueOf(r)})
						sp, ok = outs[0].String(), outs[1].Bool()
					}
					tr.schema = append(tr.schema, fmt.Sprintf("%s|%v", sp, ok))
					next.ServeHTTP(w, r)
					tr.ev = append(tr.ev, fmt.Sprintf("leave%d", i))
				})
			})
		}
		c.SetField(api, "Middlewares", mws2)
		k = origK - 1
		for i, p := range paths {
			if i%4 == 0 {
				for _, m := range ml {
					serve(m, c.Base+p, true, true, false)
				}
			}
		}
		k = origK
		c.SetField(api, "Middlewares", mws)
	}
	// spellings that are other paths: a literal segment in another case, "." and
	// ".." segments (segments like any other: nothing is cleaned or folded)
	for _, t := range rr.Templates {
		base := concreteFor(t.Segs)
		segs := strings.Split(strings.TrimPrefix(base, "/"), "/")
		var vars []string
		for i, sg := range segs {
			if i < len(t.Segs) && !isVar(t.Segs[i]) && sg != "" && strings.ToUpper(sg) != sg {
				cp := append([]string{}, segs...)
				cp[i] = strings.ToUpper(sg)
				vars = append(vars, "/"+strings.Join(cp, "/"))
			}
			ins := append(append(append([]string{}, segs[:i]...), "."), segs[i:]...)
			vars = append(vars, "/"+strings.Join(ins, "/"))
			ins2 := append(append(append([]string{}, segs[:i]...), "x", ".."), segs[i:]...)
			vars = append(vars, "/"+strings.Join(ins2, "/"))
		}
		vars = append(vars, base+"/.", base+"/..", strings.ToUpper(base))
		for _, p := range vars {
			for m := range t.Methods {
				serve(m, c.Base+p, true, true, false)
			}
		}
	}
	// no middleware installed at all: routing, authentication and the template
	// seen inside stay the same
	{
		savedK := k
		k = 0
		c.SetField(api, "Middlewares", []func(http.Handler) http.Handler(nil))
		for _, op := range c.Ops {
			serve(op.Method, c.Base+c.canonicalPath(op), true, true, false)
			serve(op.Method, c.Base+c.canonicalPath(op), false, true, false)
		}
		k = savedK
		c.SetField(api, "Middlewares", mws)
	}
	// a partly implemented API: operations whose handler field is still nil are
	// operations all the same, so a request for one enters the middlewares with
	// its template visible (here a gate that answers 403 itself, as an
	// authorisation layer would; the nil handler is never reached)
	{
		rr := c.refRouter()
		gateHits, gateTemplate := 0, ""
		gate := func(next http.Handler) http.Handler {
			return http.HandlerFunc(func(w http.ResponseWriter, r *http.Request) {
				gateHits++
				if fn, has := c.Reg.Funcs["SchemaPath"]; has {
					outs := reflect.ValueOf(fn).Call([]reflect.Value{reflect.ValueOf(r)})
					gateTemplate = outs[0].String()
				}
				w.WriteHeader(403)
			})
		}
		c.SetField(api, "Middlewares", []func(http.Handler) http.Handler{gate})
		for i, op := range c.Ops {
			if i%2 != 0 || op.Spec == nil {
				continue
			}
			p := c.Base + c.canonicalPath(op)
			if tp, _ := rr.Match(op.Method, p); tp != op.Path {
				continue // the canonical path fits a more literal template
			}
			saved := reflect.New(op.HandlerType).Elem()
			saved.Set(api.Elem().Field(op.FieldIndex))
			api.Elem().Field(op.FieldIndex).Set(reflect.Zero(op.HandlerType))
			gateHits, gateTemplate = 0, ""
			w := newRec()
			req := NewRequest(op.Method, p, "", nil, nil)
			c.addAllCredentials(req, "good")
			var pv any
			func() {
				defer func() { pv = recover() }()
				handler.ServeHTTP(w, req)
			}()
			api.Elem().Field(op.FieldIndex).Set(saved)
			c.Stat("requests", 1)
			c.Stat("nil_handler_requests", 1)
			in := fmt.Sprintf("%s %s (handler field %s nil, one gate middleware answering 403)", op.Method, p, op.FieldName)
			if pv != nil {
				c.Viol("panic", "serving a request panicked: "+firstLine(fmt.Sprint(pv)), in, nil, nil)
			} else if gateHits != 1 || w.Status != 403 {
				c.Viol("trace-shape", "a request for a declared operation whose handler field is nil did not enter the middlewares", in, "gate entered once, 403", fmt.Sprintf("gate hits=%d status=%d", gateHits, w.Status))
			} else if gateTemplate != op.Path {
				c.Viol("schema-path", "SchemaPath seen by a middleware is not the matched template", in, op.Path, gateTemplate)
			}
		}
		c.SetField(api, "Middlewares", mws)
	}
	// a request dispatched again from inside the chain (a middleware serving a
	// moved resource by handing a rewritten clone to the same API): the inner
	// dispatch is a dispatch like any other, with its own template
	{
		rr := c.refRouter()
		var seen []string
		forwarder := func(next http.Handler) http.Handler {
			return http.HandlerFunc(func(w http.ResponseWriter, r *http.Request) {
				if to := r.Header.Get("X-Forward-To"); to != "" {
					r2 := r.Clone(r.Context())
					r2.Header.Del("X-Forward-To")
					r2.Method = r.Header.Get("X-Forward-Method")
					r2.URL.Path, r2.URL.RawPath, r2.RequestURI = to, "", to
					handler.ServeHTTP(w, r2)
					return
				}
				next.ServeHTTP(w, r)
			})
		}
		probe := func(next http.Handler) http.Handler {
			return http.HandlerFunc(func(w http.ResponseWriter, r *http.Request) {
				if fn, has := c.Reg.Funcs["SchemaPath"]; has {
					outs := reflect.ValueOf(fn).Call([]reflect.Value{reflect.ValueOf(r)})
					seen = append(seen, fmt.Sprintf("%s|%v", outs[0].String(), outs[1].Bool()))
				}
				next.ServeHTTP(w, r)
			})
		}
		c.SetField(api, "Middlewares", []func(http.Handler) http.Handler{forwarder, probe})
		n := len(c.Ops)
		for i := 0; i < n && i < 12; i++ {
			a, b := c.Ops[i], c.Ops[(i+1)%n]
			if a.Spec == nil || b.Spec == nil || a.Path == b.Path {
				continue
			}
			pa, pb := c.Base+c.canonicalPath(a), c.Base+c.canonicalPath(b)
			if tp, _ := rr.Match(a.Method, pa); tp != a.Path {
				continue
			}
			if tp, _ := rr.Match(b.Method, pb); tp != b.Path {
				continue
			}
			seen = nil
			tr = &trace{}
			req := NewRequest(a.Method, pa, "", http.Header{"X-Forward-To": {pb}, "X-Forward-Method": {b.Method}}, nil)
			c.addAllCredentials(req, "good")
			var pv any
			func() {
				defer func() { pv = recover() }()
				handler.ServeHTTP(newRec(), req)
			}()
			c.Stat("requests", 1)
			c.Stat("forwarded_requests", 1)
			in := fmt.Sprintf("%s %s forwarded by the outermost middleware to %s %s", a.Method, pa, b.Method, pb)
			switch {
			case pv != nil:
				c.Viol("panic", "serving a request panicked: "+firstLine(fmt.Sprint(pv)), in, nil, nil)
			case tr.opKey != b.Key || tr.opRuns != 1:
				c.Viol("misdispatch", "request dispatched to another operation than the reference matcher's", in, b.Key, fmt.Sprintf("%s x%d", tr.opKey, tr.opRuns))
			case len(seen) != 1 || seen[0] != b.Path+"|true":
				c.Viol("schema-path", "SchemaPath seen by a middleware is not the matched template", in, b.Path+"|true", seen)
			}
		}
		c.SetField(api, "Middlewares", mws)
	}
	// the package's own in-process client is one more way into the API: what it
	// sends is dispatched like any other request, through every middleware
	if lcm := api.MethodByName("LocalClient"); lcm.IsValid() && lcm.Type().NumIn() == 0 && lcm.Type().NumOut() == 1 && k > 0 {
		c.SetField(api, "Middlewares", mws)
		c.SetField(api, "NotFoundHandler", http.Handler(nf))
		lcl := lcm.Call(nil)[0]
		for _, op := range c.Ops {
			if op.Spec == nil || op.ClientM == nil || op.ClientM.Type.In(0) != lcl.Type() {
				continue
			}
			var rawBody string
			params := c.genParams(&Gen{Rng: c.Rng, Doc: c.Doc}, op, &rawBody)
			tr = &trace{}
			_, _, pv := callClient(lcl, op, params)
			c.Stat("requests", 1)
			c.Stat("local_client_requests", 1)
			in := fmt.Sprintf("%s through API.LocalClient()", op.Key)
			if pv != nil {
				c.Viol("panic", "client call panicked: "+firstLine(fmt.Sprint(pv)), in, nil, nil)
				continue
			}
			if tr.opRuns != 1 {
				continue // reached no / another operation: C09's business
			}
			enters := 0
			for _, e := range tr.ev {
				if strings.HasPrefix(e, "enter") {
					enters++
				}
				if e == "op" {
					break
				}
			}
			if enters != k {
				c.Viol("trace-shape", "middleware / handler trace of a routed request has the wrong shape", in, fmt.Sprintf("%d middlewares entered before the operation", k), tr.ev)
			}
		}
	}
	// CORS enabled but no handler installed: no pseudo-operations, plain matching
	if hasCORS {
		corsInstalled = false
		for i, p := range paths {
			if i%3 == 0 {
				serve("OPTIONS", c.Base+p, true, true, false)
			}
		}
		corsInstalled = true
	}
	// typed path-variable lexemes: every variable of every template with every lexeme of its type
	for _, op := range c.Ops {
		if op.Spec == nil {
			continue
		}
		segs := splitSegs(op.Path)
		for vi, s := range segs {
			if !isVar(s) {
				continue
			}
			kind := c.pathVarKind(op, s[1:len(s)-1])
			for _, lx := range Lexemes(kind) {
				if strings.Contains(lx.Text, "/") {
					continue
				}
				p := c.Base + concrete(segs, map[int]string{vi: lx.Text})
				serve(op.Method, p, true, true, false)
			}
			if kind == "string" && vi == len(segs)-1 && !strings.Contains(specName, "/") && specName != "" {
				// a variable value spelled like the spec file, spec handler installed:
				// only the spec route itself bypasses the operations
				serve(op.Method, c.Base+concrete(segs, map[int]string{vi: specName}), true, true, true)
				c.Stat("requests_ending_in_the_spec_name", 1)
			}
		}
	}
}

// concrete builds a request path for template segments: variables get
// canonical values ("7" suits every primitive type except boolean/time, those
// are handled by checkPathParams through lexeme classes) unless overridden.
func concrete(segs []string, over map[int]string) string {
	var b strings.Builder
	for i, s := range segs {
		b.WriteByte('/')
		if v, ok := over[i]; ok {
			b.WriteString(v)
		} else if isVar(s) {
			b.WriteString("7")
		} else {
			b.WriteString(s)
		}
	}
	return b.String()
}

func (c *Ctx) pathVarKind(op *Op, name string) string {
	for _, p := range op.Spec.Params {
		if p.In == "path" && p.Name == name {
			return oas.Kind(p.Schema)
		}
	}
	return "string"
}

// checkPathParams (C05): every path parameter equals the typed value of the
// request segment at its template position, or parse failed naming it.
func (c *Ctx) checkPathParams(in, opKey, template string, segs []string, tr *trace) {
	op := c.OpByKey(opKey)
	if op == nil || op.Spec == nil {
		return
	}
	tsegs := splitSegs(template)
	type pv struct {
		name string
		lex  *Lexeme
		text string
		kind string
	}
	var vars []pv
	anyReject, anyDontcare := false, false
	var rejectNames []string
	for i, s := range tsegs {
		if !isVar(s) {
			continue
		}
		name := s[1 : len(s)-1]
		kind := c.pathVarKind(op, name)
		text := segs[i]
		v := pv{name: name, text: text, kind: kind}
		if text == "" {
			anyReject = true
			rejectNames = append(rejectNames, name)
			v.lex = &Lexeme{Text: "", Class: "reject"}
		} else if kind == "string" || kind == "date" {
			v.lex = &Lexeme{Text: text, Class: "accept", Value: text}
		} else {
			for _, lx := range Lexemes(kind) {
				if lx.Text == text {
					l := lx
					v.lex = &l
				}
			}
			if v.lex == nil {
				// classify texts of the enumerated alphabet
				v.lex = classifyText(kind, text)
			}
			switch v.lex.Class {
			case "reject":
				anyReject = true
				rejectNames = append(rejectNames, name)
			case "dontcare":
				anyDontcare = true
			}
		}
		vars = append(vars, v)
	}
	if len(vars) == 0 {
		return
	}
	c.Stat("path_param_checks", 1)
	if anyReject {
		if tr.parseErr == nil {
			c.Viol("path-param-accepted", "Parse() succeeded although a path segment is empty or outside its type's lexical space", in, "error naming "+strings.Join(rejectNames, "/"), dumpValue(tr.params))
			return
		}
		msg := tr.parseErr.Error()
		named := false
		for _, v := range vars {
			if strings.Contains(msg, "'"+v.name+"'") || strings.Contains(msg, "\""+v.name+"\"") {
				named = true
			}
		}
		if !named {
			c.Viol("path-param-error-unnamed", "path parameter parse error does not name a path parameter", in, rejectNames, msg)
		}
		return
	}
	if anyDontcare {
		c.Stat("dontcare", 1)
		if tr.parseErr != nil {
			return
		}
	} else if tr.parseErr != nil {
		// query/header parameters are not supplied in route mode and are never required in the router family
		c.Viol("path-param-rejected", "Parse() failed although every path segment is a valid lexeme of its type", in, "success", tr.parseErr.Error())
		return
	}
	pf := tr.params.FieldByName("Path")
	if !pf.IsValid() {
		c.Stat("unmapped", 1)
		return
	}
	for _, v := range vars {
		if v.lex.Class != "accept" {
			continue
		}
		idx, ok := fieldByNorm(pf.Type(), v.name)
		if !ok {
			c.Stat("unmapped", 1)
			continue
		}
		got := unwrapValue(pf.Field(idx))
		if !sameTyped(got, v.lex.Value) {
			c.Viol("path-param-value", "path parameter value is not the typed value of its own segment", in, fmt.Sprintf("%s=%v", v.name, v.lex.Value), fmt.Sprintf("%s=%v", v.name, got))
		}
	}
}

// classifyText classifies an arbitrary text for a kind: table lexemes first,
// otherwise by the lexical grammar of the type (JSON number grammar, RFC 3339)
// and its range.
var (
	intRe   = regexp.MustCompile(`^-?(0|[1-9][0-9]*)$`)
	numRe   = regexp.MustCompile(`^-?(0|[1-9][0-9]*)(\.[0-9]+)?([eE][+-]?[0-9]+)?$`)
	rfc3339 = regexp.MustCompile(`^[0-9]{4}-[0-9]{2}-[0-9]{2}T[0-9]{2}:[0-9]{2}:[0-9]{2}(\.[0-9]+)?(Z|[+-][0-9]{2}:[0-9]{2})$`)
)

func classifyText(kind, text string) *Lexeme {
	for _, lx := range Lexemes(kind) {
		if lx.Text == text {
			l := lx
			return &l
		}
	}
	switch kind {
	case "integer", "int32", "int64":
		if intRe.MatchString(text) && text != "-0" {
			z := bi(text)
			lo, hi := bi("-9223372036854775808"), bi("9223372036854775807")
			if kind == "int32" {
				lo, hi = bi("-2147483648"), bi("2147483647")
			}
			if z.Cmp(lo) >= 0 && z.Cmp(hi) <= 0 {
				return &Lexeme{text, "accept", z}
			}
		}
		return &Lexeme{text, "reject", nil}
	case "number", "double", "float":
		if numRe.MatchString(text) {
			bits := 64
			if kind == "float" {
				bits = 32
			}
			f, err := strconv.ParseFloat(text, bits)
			if err != nil {
				return &Lexeme{text, "reject", nil} // out of range
			}
			if f == 0 && strings.Trim(text, "-0.eE+") != "" && !strings.ContainsAny(text, "eE") {
				return &Lexeme{text, "dontcare", nil} // underflow to zero
			}
			if kind == "float" {
				return &Lexeme{text, "accept", float32(f)}
			}
			return &Lexeme{text, "accept", f}
		}
		return &Lexeme{text, "reject", nil}
	case "boolean":
		return &Lexeme{text, "reject", nil}
	case "date-time":
		if rfc3339.MatchString(text) {
			if t, err := time.Parse(time.RFC3339Nano, text); err == nil {
				return &Lexeme{text, "accept", t}
			}
		}
		return &Lexeme{text, "reject", nil}
	}
	return &Lexeme{text, "accept", text}
}

// unwrapValue returns the plain Go value of a (possibly named-type) field.
func unwrapValue(v reflect.Value) any {
	for isWrapper(v.Type()) {
		v = v.Field(1)
	}
	if v.Type() != timeType && v.Kind() == reflect.Struct && v.Type().ConvertibleTo(timeType) {
		v = v.Convert(timeType) // named type defined from time.Time
	}
	switch v.Kind() {
	case reflect.String:
		return v.String()
	case reflect.Int:
		return int(v.Int())
	case reflect.Int32:
		return int32(v.Int())
	case reflect.Int64:
		return v.Int()
	case reflect.Float32:
		return float32(v.Float())
	case reflect.Float64:
		return v.Float()
	case reflect.Bool:
		return v.Bool()
	}
	if v.CanInterface() {
		return v.Interface()
	}
	return nil
}

func dumpValue(v reflect.Value) string {
	if !v.IsValid() {
		return "<invalid>"
	}
	if v.CanInterface() {
		return fmt.Sprintf("%+v", v.Interface())
	}
	return v.String()
}
