package drv

import (
	"context"
	"fmt"
	"net/http"
	"os"
	"reflect"
)

func init() { modes["spec"] = modeSpec }

// modeSpec (C13 part ii): the SpecFile constant and the body served at
// <base>/<spec name> equal the input file byte for byte, whatever middlewares
// are installed (none may see the request); without the handler the route is
// not found.
func modeSpec(c *Ctx) {
	want, err := os.ReadFile(c.Case.SpecFile)
	if err != nil {
		c.emit(event{"t": "fatal", "msg": err.Error()})
		return
	}
	if k, ok := c.Reg.Consts["SpecFile"]; ok {
		c.Stat("constants", 1)
		if s, _ := k.(string); s != string(want) {
			c.Viol("constant-differs", "the compiled SpecFile constant differs from the input file", c.Case.SpecFile, len(want), len(s))
		}
	} else {
		c.Viol("constant-missing", "no SpecFile constant in the generated package", nil, nil, nil)
	}
	if len(c.Ops) == 0 {
		return
	}
	opRan := ""
	api := c.NewAPI(func(op *Op) func(ctx context.Context, req reflect.Value) reflect.Value {
		return func(ctx context.Context, req reflect.Value) reflect.Value {
			opRan = op.Key
			return reflect.Value{}
		}
	})
	c.installAcceptAllAuth(api)
	h := c.Handler(api)
	fn, ok := c.Reg.Funcs["SpecFileHandler"]
	if !ok {
		c.Viol("constant-missing", "no SpecFileHandler function in the generated package", nil, nil, nil)
		return
	}
	specH := reflect.ValueOf(fn).Call(nil)[0].Interface()
	mwHits := 0
	mkMW := func(n int) []func(http.Handler) http.Handler {
		var out []func(http.Handler) http.Handler
		for i := 0; i < n; i++ {
			out = append(out, func(next http.Handler) http.Handler {
				return http.HandlerFunc(func(w http.ResponseWriter, r *http.Request) {
					mwHits++
					w.Header().Set("X-From-Middleware", "1")
					if r.Header.Get("X-Block") != "" {
						w.WriteHeader(401)
						return
					}
					next.ServeHTTP(w, r)
				})
			})
		}
		return out
	}
	path := c.Base + "/" + c.Case.SpecName
	for k := 0; k <= 3; k++ {
		c.SetField(api, "Middlewares", mkMW(k))
		for _, installed := range []bool{true, false} {
			if installed {
				c.SetField(api, "SpecFileHandler", specH)
			} else {
				c.SetField(api, "SpecFileHandler", nil)
			}
			for _, m := range []string{"GET", "HEAD", "POST"} {
				mwHits, opRan = 0, ""
				r := NewRequest(m, path, "", http.Header{"X-Block": {"1"}}, nil)
				if k == 1 {
					// a request whose context is already done (client gone, deadline passed):
					// what is served is still the file
					ctx, cancel := context.WithCancel(context.Background())
					cancel()
					r = r.WithContext(ctx)
				}
				w := newRec()
				func() {
					defer func() {
						if p := recover(); p != nil {
							c.Viol("panic", "serving the spec route panicked: "+firstLine(fmt.Sprint(p)), m+" "+path, nil, nil)
						}
					}()
					h.ServeHTTP(w, r)
				}()
				c.Stat("spec_requests", 1)
				in := fmt.Sprintf("%s %s (middlewares=%d, SpecFileHandler installed=%v)", m, path, k, installed)
				if installed {
					if mwHits > 0 || opRan != "" {
						c.Viol("spec-not-bypassing", "the spec-file request went through middlewares or an operation", in, "spec handler alone", fmt.Sprintf("middleware hits=%d operation=%q", mwHits, opRan))
					}
					if w.Status != 200 || w.Body.String() != string(want) {
						c.Viol("served-differs", "the served spec body differs from the input file", in, fmt.Sprintf("200, %d bytes", len(want)), fmt.Sprintf("%d, %d bytes: %q…", w.Status, w.Body.Len(), trunc(w.Body.String(), 60)))
					}
				} else {
					// not installed: the path is an ordinary path; unless an operation matches it, it is not found
					rr := c.refRouter()
					if tp, _ := rr.Match(m, path); tp == "" {
						if w.Status != 404 || w.Body.String() == string(want) {
							c.Viol("served-without-handler", "the spec route answered although SpecFileHandler is nil", in, 404, w.Status)
						}
					}
				}
			}
		}
	}
	c.Distinct("spec:" + c.Case.ID)
	c.Sample(map[string]any{"path": path, "bytes": len(want)})
}
