package drv

import (
	"context"
	"encoding/json"
	"fmt"
	"reflect"
	"sort"
	"strings"

	"verif/oas"
)

func init() { modes["json"] = modeJSON }

type typedSchema struct {
	Name   string
	Type   reflect.Type
	Schema any // schema node (may be a $ref)
}

// jsonTargets lists (Go type, schema) pairs: component schemas by name and
// JSON request bodies of operations.
func (c *Ctx) jsonTargets() []typedSchema {
	var out []typedSchema
	comps, _ := c.Doc.Root["components"].(map[string]any)
	schemas, _ := comps["schemas"].(map[string]any)
	for _, name := range oas.SortedKeys(schemas) {
		if t, ok := c.Reg.Types[name]; ok {
			out = append(out, typedSchema{"schema " + name, t, schemas[name]})
		}
	}
	for _, op := range c.Ops {
		if op.Spec == nil || op.Spec.Body == nil || !op.Spec.Body.JSON || op.ParamsType == nil {
			continue
		}
		if f, ok := op.ParamsType.FieldByName("Body"); ok {
			out = append(out, typedSchema{"request body of " + op.Key, f.Type, op.Spec.Body.RawSchema})
		}
	}
	return out
}

func marshalValue(v reflect.Value) (bs []byte, err error) {
	defer func() {
		if p := recover(); p != nil {
			err = fmt.Errorf("panic: %v", p)
		}
	}()
	return json.Marshal(v.Interface())
}

func unmarshalInto(t reflect.Type, bs []byte) (v reflect.Value, err error) {
	defer func() {
		if p := recover(); p != nil {
			err = fmt.Errorf("panic: %v", p)
		}
	}()
	p := reflect.New(t)
	err = json.Unmarshal(bs, p.Interface())
	return p.Elem(), err
}

func modeJSON(c *Ctx) {
	targets := c.jsonTargets()
	nvals := c.Case.Int("values", 120)
	ndocs := c.Case.Int("docs", 60)
	jv := &JSV{Doc: c.Doc}
	for _, ts := range targets {
		s := c.Doc.Schema(ts.Schema)
		kind := oas.Kind(s)
		// ---------- C07: a union with no alternative set is outside the domain of the
		// round trip; encoding it may fail, but if bytes come out they must still
		// be valid for the schema (no null where the schema is not nullable)
		{
			gz := &Gen{Rng: c.Rng, Doc: c.Doc}
			for i := 0; i < 3; i++ {
				v := gz.Value(ts.Type, s, 0)
				if isWrapper(ts.Type) && !v.Field(0).Bool() {
					continue
				}
				if !zeroFirstUnion(c.Doc, v, s, 0) {
					break
				}
				c.Stat("zero_union_values", 1)
				bs, err := marshalValue(v)
				if err != nil {
					c.Stat("zero_union_refused", 1)
					continue
				}
				in := fmt.Sprintf("%s: %s (a oneOf union left without alternative)", ts.Name, trunc(dumpValue(v), 300))
				dv, derr := DecodeJSON(bs)
				if derr != nil {
					c.Viol("invalid-json", "encoded output is not valid JSON ["+ts.Name+"]", in, "valid JSON or an error", string(bs))
				} else if errs := jv.Validate(dv, ts.Schema); len(errs) > 0 {
					c.Viol("schema-nonconformant", "encoded JSON does not validate against its schema ["+ts.Name+"]: "+stripPath(errs[0]), in, "valid for schema, or an error", map[string]any{"json": string(bs), "errors": errs})
				}
			}
		}
		// ---------- C06 / C07: values -> JSON -> values
		g := &Gen{Rng: c.Rng, Doc: c.Doc, Boundary: true, FieldKeys: true}
		for i := 0; i < nvals; i++ {
			g.Zeroish = i < 4 // the first values are the "nothing there" look-alikes
			v := g.Value(ts.Type, s, 0)
			if isWrapper(ts.Type) {
				// a top-level wrapper must be set to be encodable as a document
				for tries := 0; tries < 20 && !v.Field(0).Bool(); tries++ {
					v = g.Value(ts.Type, s, 0)
				}
				if !v.Field(0).Bool() {
					continue
				}
			}
			before := dumpValueNil(v)
			bs, err := marshalValue(v)
			c.Stat("values", 1)
			in := fmt.Sprintf("%s: %s", ts.Name, trunc(dumpValue(v), 400))
			if after := dumpValueNil(v); after != before {
				// encoding reads its input: a value shared between requests must come out untouched
				c.Viol("input-mutated", "MarshalJSON changed the value it was encoding ["+ts.Name+"]", trunc(before, 400), trunc(before, 400), trunc(after, 400))
			}
			if err != nil {
				if kind == "oneOf" && strings.Contains(err.Error(), "all field are empty") {
					continue // outside the domain: no arm set (only possible when a wrapper stayed unset)
				}
				c.Viol("marshal-error", "encoding a value of a schema-derived type failed ["+ts.Name+"]", in, "valid JSON", err.Error())
				continue
			}
			if !json.Valid(bs) {
				c.Viol("invalid-json", "encoded output is not valid JSON ["+ts.Name+"]", in, "valid JSON", string(bs))
				continue
			}
			back, err := unmarshalInto(ts.Type, bs)
			if err != nil {
				c.Viol("roundtrip-decode-error", "decoding the encoder's own output failed ["+ts.Name+"]", in, "decodes", map[string]string{"json": string(bs), "error": err.Error()})
			} else if d := DiffValues(v, back); d != "" {
				c.Viol("roundtrip-differs", "encode then decode returned a different value ["+ts.Name+"]", in, "equal value", map[string]string{"json": string(bs), "difference": d})
			}
			// C07: schema conformance of the bytes
			dv, err := DecodeJSON(bs)
			if err != nil {
				c.Viol("schema-nonconformant", "encoded JSON has duplicate keys or trailing data ["+ts.Name+"]", in, "one value, unique keys", map[string]string{"json": string(bs), "error": err.Error()})
				continue
			}
			if errs := jv.Validate(dv, ts.Schema); len(errs) > 0 {
				c.Viol("schema-nonconformant", "encoded JSON does not validate against its schema ["+ts.Name+"]: "+stripPath(errs[0]), in, "valid for schema", map[string]any{"json": string(bs), "errors": errs})
			}
			if c.Kin != nil && i%4 == 0 && strings.HasPrefix(ts.Name, "schema ") {
				kerr := c.Kin.ValidateComponent(strings.TrimPrefix(ts.Name, "schema "), bs)
				mine := len(jv.Validate(dv, ts.Schema)) == 0
				switch {
				case kerr == nil && mine:
					c.Stat("second_opinion_agree_valid", 1)
				case kerr != nil && !mine:
					c.Stat("second_opinion_agree_invalid", 1)
				case kerr != nil:
					c.Stat("second_opinion_only_kin_rejects", 1)
					c.Note("kin-openapi rejects, jsv accepts [" + ts.Name + "]: " + trunc(string(bs), 120) + ": " + trunc(kerr.Error(), 160))
				default:
					c.Stat("second_opinion_only_mine_rejects", 1)
				}
			}
			// map entries appear under their own keys: every key of every
			// additional-properties map of the value is an object key of the document
			if missing := missingMapKeys(v, dv); len(missing) > 0 {
				c.Viol("map-entry-missing", "an additional-properties entry of the value does not appear in the encoded JSON ["+ts.Name+"]", in, missing, string(bs))
			}
			var und []string
			jv.UndeclaredKeys(dv, ts.Schema, "$", &und, 0)
			if len(und) > 0 {
				c.Viol("schema-nonconformant", "encoded JSON carries a property the schema does not declare ["+ts.Name+"]", in, "declared names only", map[string]any{"json": string(bs), "keys": und})
			}
			// retained output must not be overwritten by a later encoding of the same type
			if i%6 == 0 {
				if m, ok := v.Interface().(json.Marshaler); ok {
					first, err1 := m.MarshalJSON()
					keep := append([]byte{}, first...)
					other := g.Value(ts.Type, s, 0)
					if m2, ok := other.Interface().(json.Marshaler); ok && err1 == nil {
						_, _ = m2.MarshalJSON()
						_, _ = m2.MarshalJSON()
						if string(first) != string(keep) {
							c.Viol("output-aliased", "bytes returned by MarshalJSON changed when another value of the same type was encoded ["+ts.Name+"]", in, string(keep), string(first))
						}
					}
				}
			}
			if i == 0 {
				c.Sample(map[string]any{"type": ts.Name, "value": trunc(dumpValue(v), 200), "json": trunc(string(bs), 200)})
			}
		}
		c.Stat("unmapped", g.Unmapped)
		for n, k := range g.UnmappedNames {
			c.Stat("unmapped:"+n, k)
		}
		c.Distinct("type:" + ts.Name)
		// ---------- C08: documents -> values -> documents
		dg := &DocGen{Doc: c.Doc, Rng: c.Rng}
		for i := 0; i < ndocs; i++ {
			doc := dg.Valid(ts.Schema, 0)
			if doc == nil && (!oas.IsNullable(s) || !isWrapper(ts.Type)) {
				// null is carried by the Nullable wrapper at the referencing site, a bare component type cannot hold it
				continue
			}
			text := EncodeDoc(doc, i%4)
			// the independent generator must agree with the validator (self check of the oracle)
			if dv, err := DecodeJSON(text); err != nil || len(jv.Validate(dv, ts.Schema)) > 0 {
				c.Stat("docgen_self_check_failed", 1)
				continue
			}
			c.Stat("documents", 1)
			in := fmt.Sprintf("%s: %s", ts.Name, trunc(string(text), 400))
			back, err := unmarshalInto(ts.Type, text)
			if err != nil {
				cls, note := escapedStyle("valid-doc-rejected", i%4 == 3, err)
				c.Viol(cls, "a schema-valid document failed to decode ["+ts.Name+"]"+note, in, "decodes", err.Error())
				continue
			}
			re, err := marshalValue(back)
			if err != nil {
				c.Viol("reencode-error", "re-encoding a decoded document failed ["+ts.Name+"]", in, "encodes", err.Error())
				continue
			}
			if d := DiffJSON(text, re); d != "" {
				c.Viol("reencode-differs", "decode then encode returned a non-equivalent JSON value ["+ts.Name+"]", in, "equivalent JSON", map[string]string{"reencoded": string(re), "difference": d})
			}
			if i%4 != 0 {
				continue
			}
			for _, fm := range dg.Faults(doc, ts.Schema) {
				ft := EncodeDoc(fm.Doc, 0)
				c.Stat("fault_documents", 1)
				c.Stat("fault:"+fm.Fault.Kind, 1)
				fin := fmt.Sprintf("%s: %s (fault: %s of %q at %s)", ts.Name, trunc(string(ft), 400), fm.Fault.Kind, fm.Fault.Property, fm.Fault.Path)
				_, err := unmarshalInto(ts.Type, ft)
				if err == nil {
					c.Viol("fault-accepted:"+fm.Fault.Kind, "a document with a single "+fm.Fault.Kind+" fault decoded without error ["+ts.Name+"]", fin, "error naming "+fm.Fault.Property, "decoded")
					continue
				}
				if !strings.Contains(err.Error(), fm.Fault.Property) {
					c.Viol("fault-error-unnamed", "decode error does not name the faulty property"+discTag(err)+" ["+ts.Name+"]", fin, fm.Fault.Property, err.Error())
				}
			}
		}
	}
	c.jsonRequestBodies()
}

// discTag marks the one case where the faulty property is a oneOf discriminator
// and the decoder reports it as "unknown discriminator" without the property name.
func discTag(err error) string {
	if err != nil && strings.Contains(err.Error(), "unknown discriminator") {
		return " (discriminator property; error says 'unknown discriminator')"
	}
	return ""
}

func stripPath(s string) string {
	if i := strings.Index(s, ": "); i >= 0 {
		return s[i+2:]
	}
	return s
}

// jsonRequestBodies (C08, server side): valid and single-fault documents sent
// as request bodies; Parse() must accept / reject with the property named.
func (c *Ctx) jsonRequestBodies() {
	var lastErr error
	var lastOK bool
	var ran bool
	api := c.NewAPI(func(op *Op) func(ctx context.Context, req reflect.Value) reflect.Value {
		return func(ctx context.Context, req reflect.Value) reflect.Value {
			ran = true
			_, err := Parse(req)
			lastErr = err
			lastOK = err == nil
			return reflect.Value{}
		}
	})
	c.installAcceptAllAuth(api)
	h := c.Handler(api)
	dg := &DocGen{Doc: c.Doc, Rng: c.Rng}
	jv := &JSV{Doc: c.Doc}
	for _, op := range c.Ops {
		if op.Spec == nil || op.Spec.Body == nil || !op.Spec.Body.JSON || !op.ParseErr {
			continue
		}
		s := c.Doc.Schema(op.Spec.Body.RawSchema)
		if s == nil {
			continue
		}
		path := c.Base + c.canonicalPath(op)
		nsent := 0
		for i := 0; i < 12; i++ {
			doc := dg.Valid(op.Spec.Body.RawSchema, 0)
			if doc == nil {
				continue
			}
			text := EncodeDoc(doc, i%4)
			if dv, err := DecodeJSON(text); err != nil || len(jv.Validate(dv, op.Spec.Body.RawSchema)) > 0 {
				continue
			}
			send := func(body []byte) {
				ran, lastErr, lastOK = false, nil, false
				r := NewRequest(op.Method, path, c.canonicalQuery(op), c.canonicalHeaders(op), body)
				r.Header.Set("Content-Type", "application/json")
				c.addAllCredentials(r, "good")
				nsent++
				if nsent%2 == 0 {
					// a body of unknown length (chunked transfer): net/http reports -1
					r.ContentLength = -1
					r.TransferEncoding = []string{"chunked"}
				}
				func() {
					defer func() {
						if p := recover(); p != nil {
							c.Viol("panic", "serving a request panicked: "+firstLine(fmt.Sprint(p)), op.Key, nil, nil)
						}
					}()
					h.ServeHTTP(newRec(), r)
				}()
			}
			send(text)
			if !ran {
				c.Stat("body_not_dispatched", 1)
				break
			}
			c.Stat("body_documents", 1)
			if !lastOK {
				cls, note := escapedStyle("valid-body-rejected", i%4 == 3, lastErr)
				c.Viol(cls, "Parse() rejected a request whose JSON body is valid for the schema ["+op.Key+"]"+note, trunc(string(text), 400), "success", fmt.Sprint(lastErr))
				continue
			}
			for _, fm := range dg.Faults(doc, op.Spec.Body.RawSchema) {
				ft := EncodeDoc(fm.Doc, 0)
				send(ft)
				c.Stat("body_fault_documents", 1)
				fin := fmt.Sprintf("%s: %s (fault: %s of %q)", op.Key, trunc(string(ft), 400), fm.Fault.Kind, fm.Fault.Property)
				if lastOK {
					c.Viol("fault-accepted:"+fm.Fault.Kind, "Parse() accepted a request body with a single "+fm.Fault.Kind+" fault ["+op.Key+"]", fin, "error naming "+fm.Fault.Property, "parsed")
				} else if lastErr != nil && !strings.Contains(lastErr.Error(), fm.Fault.Property) {
					c.Viol("fault-error-unnamed", "Parse() error does not name the faulty body property"+discTag(lastErr)+" ["+op.Key+"]", fin, fm.Fault.Property, lastErr.Error())
				}
			}
		}
	}
}

// missingMapKeys lists the string keys of all maps inside v that are no
// object key anywhere in the decoded document.
func missingMapKeys(v reflect.Value, doc any) []string {
	have := map[string]bool{}
	var walkDoc func(d any)
	walkDoc = func(d any) {
		switch t := d.(type) {
		case map[string]any:
			for k, e := range t {
				have[k] = true
				walkDoc(e)
			}
		case *jobj:
			for _, k := range t.keys {
				have[k] = true
				walkDoc(t.vals[k])
			}
		case []any:
			for _, e := range t {
				walkDoc(e)
			}
		}
	}
	walkDoc(doc)
	var missing []string
	var walk func(v reflect.Value, depth int)
	walk = func(v reflect.Value, depth int) {
		if !v.IsValid() || depth > 12 {
			return
		}
		switch v.Kind() {
		case reflect.Struct:
			if v.Type() == timeType {
				return
			}
			if isWrapper(v.Type()) {
				if v.Field(0).Bool() {
					walk(v.Field(1), depth+1)
				}
				return
			}
			for i := 0; i < v.NumField(); i++ {
				walk(v.Field(i), depth+1)
			}
		case reflect.Map:
			if v.Type().Key().Kind() != reflect.String {
				return
			}
			for _, k := range v.MapKeys() {
				if !have[k.String()] {
					missing = append(missing, k.String())
				}
				walk(v.MapIndex(k), depth+1)
			}
		case reflect.Slice:
			if v.Type() == rawType || v.Type().Elem().Kind() == reflect.Uint8 {
				return
			}
			for i := 0; i < v.Len(); i++ {
				walk(v.Index(i), depth+1)
			}
		case reflect.Pointer, reflect.Interface:
			if !v.IsNil() {
				walk(v.Elem(), depth+1)
			}
		}
	}
	walk(v, 0)
	sort.Strings(missing)
	return missing
}

// zeroFirstUnion resets the first oneOf-typed position found in v (guided by
// the schema) to its zero value: no alternative set. Reports whether it found one.
func zeroFirstUnion(doc *oas.Doc, v reflect.Value, s oas.M, depth int) bool {
	if s == nil || depth > 6 || !v.IsValid() {
		return false
	}
	if isWrapper(v.Type()) {
		if !v.Field(0).Bool() {
			return false
		}
		return zeroFirstUnion(doc, v.Field(1), s, depth)
	}
	switch oas.Kind(s) {
	case "oneOf":
		if v.Kind() == reflect.Struct && v.CanSet() {
			v.Set(reflect.Zero(v.Type()))
			return true
		}
		return false
	case "array":
		if v.Kind() != reflect.Slice || v.Len() == 0 {
			return false
		}
		return zeroFirstUnion(doc, v.Index(v.Len()-1), doc.Schema(s["items"]), depth+1)
	case "object", "allOf":
		if v.Kind() != reflect.Struct {
			return false
		}
		ov, err := doc.ObjectView(s)
		if err != nil {
			return false
		}
		for _, pn := range ov.Order {
			if idx, ok := fieldByNorm(v.Type(), pn); ok && v.Field(idx).CanSet() {
				if zeroFirstUnion(doc, v.Field(idx), doc.Schema(ov.Props[pn]), depth+1) {
					return true
				}
			}
		}
	}
	return false
}

// escapedStyle marks failures on documents written in the all-escapes string
// style (class suffix), and names the one known cause among them: Go's
// time.Time.UnmarshalJSON parses the raw bytes between the quotes.
func escapedStyle(class string, escaped bool, err error) (string, string) {
	if !escaped {
		return class, ""
	}
	note := " (strings written as \\uXXXX escapes)"
	if err != nil && strings.Contains(err.Error(), "parsing time") && strings.Contains(err.Error(), `\\u00`) {
		note += " (time.Time does not unescape JSON strings)"
	}
	return class + ":escaped-strings", note
}

// dumpValueNil renders a value so that nil and empty slices / maps differ
// (%#v of the interface value: "[]string(nil)" vs "[]string{}").
func dumpValueNil(v reflect.Value) string {
	if !v.IsValid() || !v.CanInterface() {
		return ""
	}
	return fmt.Sprintf("%#v", v.Interface())
}
