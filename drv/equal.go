package drv

import (
	"bytes"
	"encoding/json"
	"fmt"
	"io"
	"math"
	"math/big"
	"reflect"
	"sort"
	"time"
)

// Equality (DESIGN §5.4). Go values: nil == empty for slices and maps, times
// by instant, floats bit-wise except +0 == -0 is NOT assumed (compared by
// value with NaN excluded by the domain), RawMessage as JSON values, readers
// by content. Returns "" when equal, else a path to the first difference.
func DiffValues(a, b reflect.Value) string { return diffValues(a, b, "") }

func diffValues(a, b reflect.Value, path string) string {
	if a.Type() != b.Type() {
		return fmt.Sprintf("%s: type %s vs %s", path, a.Type(), b.Type())
	}
	t := a.Type()
	switch t {
	case timeType:
		ta, tb := a.Interface().(time.Time), b.Interface().(time.Time)
		if !ta.Equal(tb) {
			return fmt.Sprintf("%s: time %s vs %s", path, ta.Format(time.RFC3339Nano), tb.Format(time.RFC3339Nano))
		}
		return ""
	case rawType:
		ra, rb := a.Interface().(json.RawMessage), b.Interface().(json.RawMessage)
		if d := DiffJSON(rawOrNull(ra), rawOrNull(rb)); d != "" {
			return path + ": raw json: " + d
		}
		return ""
	}
	switch t.Kind() {
	case reflect.Bool:
		if a.Bool() != b.Bool() {
			return fmt.Sprintf("%s: %v vs %v", path, a.Bool(), b.Bool())
		}
	case reflect.Int, reflect.Int8, reflect.Int16, reflect.Int32, reflect.Int64:
		if a.Int() != b.Int() {
			return fmt.Sprintf("%s: %d vs %d", path, a.Int(), b.Int())
		}
	case reflect.Uint, reflect.Uint8, reflect.Uint16, reflect.Uint32, reflect.Uint64:
		if a.Uint() != b.Uint() {
			return fmt.Sprintf("%s: %d vs %d", path, a.Uint(), b.Uint())
		}
	case reflect.Float32, reflect.Float64:
		if a.Float() != b.Float() && !(math.IsNaN(a.Float()) && math.IsNaN(b.Float())) {
			return fmt.Sprintf("%s: %v vs %v", path, a.Float(), b.Float())
		}
	case reflect.String:
		if a.String() != b.String() {
			return fmt.Sprintf("%s: %q vs %q", path, a.String(), b.String())
		}
	case reflect.Slice, reflect.Array:
		if a.Len() != b.Len() {
			return fmt.Sprintf("%s: len %d vs %d", path, a.Len(), b.Len())
		}
		for i := 0; i < a.Len(); i++ {
			if d := diffValues(a.Index(i), b.Index(i), fmt.Sprintf("%s[%d]", path, i)); d != "" {
				return d
			}
		}
	case reflect.Map:
		if a.Len() != b.Len() {
			return fmt.Sprintf("%s: map len %d vs %d", path, a.Len(), b.Len())
		}
		for _, k := range a.MapKeys() {
			bv := b.MapIndex(k)
			if !bv.IsValid() {
				return fmt.Sprintf("%s: key %v missing", path, k)
			}
			if d := diffValues(a.MapIndex(k), bv, fmt.Sprintf("%s[%v]", path, k)); d != "" {
				return d
			}
		}
	case reflect.Struct:
		if isWrapper(t) {
			if a.Field(0).Bool() != b.Field(0).Bool() {
				return fmt.Sprintf("%s: %s set=%v vs set=%v", path, wrapperKind(t), a.Field(0).Bool(), b.Field(0).Bool())
			}
			if !a.Field(0).Bool() {
				return "" // unset: Value is irrelevant
			}
			return diffValues(a.Field(1), b.Field(1), path+".Value")
		}
		for i := 0; i < t.NumField(); i++ {
			if d := diffValues(a.Field(i), b.Field(i), path+"."+t.Field(i).Name); d != "" {
				return d
			}
		}
	case reflect.Pointer:
		if a.IsNil() != b.IsNil() {
			return fmt.Sprintf("%s: nil %v vs %v", path, a.IsNil(), b.IsNil())
		}
		if !a.IsNil() {
			return diffValues(a.Elem(), b.Elem(), path)
		}
	case reflect.Interface:
		if a.IsNil() != b.IsNil() {
			return fmt.Sprintf("%s: nil %v vs %v", path, a.IsNil(), b.IsNil())
		}
		if !a.IsNil() {
			if ra, ok := a.Interface().(io.Reader); ok {
				if rb, ok := b.Interface().(io.Reader); ok {
					ba, _ := io.ReadAll(ra)
					bb, _ := io.ReadAll(rb)
					if !bytes.Equal(ba, bb) {
						return fmt.Sprintf("%s: reader content %q vs %q", path, trunc(string(ba), 40), trunc(string(bb), 40))
					}
					return ""
				}
			}
			return diffValues(a.Elem(), b.Elem(), path)
		}
	}
	return ""
}

func rawOrNull(r json.RawMessage) []byte {
	if len(r) == 0 {
		return []byte("null")
	}
	return r
}

func trunc(s string, n int) string {
	if len(s) > n {
		return s[:n] + "…"
	}
	return s
}

// DecodeJSON decodes with UseNumber and rejects duplicate object keys and trailing data.
func DecodeJSON(bs []byte) (any, error) {
	dec := json.NewDecoder(bytes.NewReader(bs))
	dec.UseNumber()
	v, err := decodeValue(dec)
	if err != nil {
		return nil, err
	}
	if _, err := dec.Token(); err != io.EOF {
		return nil, fmt.Errorf("trailing data after the JSON value")
	}
	return v, nil
}

func decodeValue(dec *json.Decoder) (any, error) {
	tok, err := dec.Token()
	if err != nil {
		return nil, err
	}
	switch t := tok.(type) {
	case json.Delim:
		switch t {
		case '{':
			m := map[string]any{}
			for dec.More() {
				kt, err := dec.Token()
				if err != nil {
					return nil, err
				}
				k, _ := kt.(string)
				if _, dup := m[k]; dup {
					return nil, fmt.Errorf("duplicate object key %q", k)
				}
				v, err := decodeValue(dec)
				if err != nil {
					return nil, err
				}
				m[k] = v
			}
			if _, err := dec.Token(); err != nil {
				return nil, err
			}
			return m, nil
		case '[':
			l := []any{}
			for dec.More() {
				v, err := decodeValue(dec)
				if err != nil {
					return nil, err
				}
				l = append(l, v)
			}
			if _, err := dec.Token(); err != nil {
				return nil, err
			}
			return l, nil
		}
	}
	return tok, nil
}

// DiffJSON compares two JSON texts as values: numbers as exact decimals,
// object key order ignored, duplicate keys are an error.
func DiffJSON(a, b []byte) string {
	va, err := DecodeJSON(a)
	if err != nil {
		return "first is not valid JSON: " + err.Error()
	}
	vb, err := DecodeJSON(b)
	if err != nil {
		return "second is not valid JSON: " + err.Error()
	}
	return diffJSONValues(va, vb, "$")
}

func diffJSONValues(a, b any, path string) string {
	switch ta := a.(type) {
	case map[string]any:
		tb, ok := b.(map[string]any)
		if !ok {
			return fmt.Sprintf("%s: object vs %T", path, b)
		}
		ks := map[string]bool{}
		for k := range ta {
			ks[k] = true
		}
		for k := range tb {
			ks[k] = true
		}
		keys := make([]string, 0, len(ks))
		for k := range ks {
			keys = append(keys, k)
		}
		sort.Strings(keys)
		for _, k := range keys {
			va, oka := ta[k]
			vb, okb := tb[k]
			if oka != okb {
				return fmt.Sprintf("%s.%s: present %v vs %v", path, k, oka, okb)
			}
			if d := diffJSONValues(va, vb, path+"."+k); d != "" {
				return d
			}
		}
		return ""
	case []any:
		tb, ok := b.([]any)
		if !ok {
			return fmt.Sprintf("%s: array vs %T", path, b)
		}
		if len(ta) != len(tb) {
			return fmt.Sprintf("%s: length %d vs %d", path, len(ta), len(tb))
		}
		for i := range ta {
			if d := diffJSONValues(ta[i], tb[i], fmt.Sprintf("%s[%d]", path, i)); d != "" {
				return d
			}
		}
		return ""
	case json.Number:
		tb, ok := b.(json.Number)
		if !ok {
			return fmt.Sprintf("%s: number vs %T", path, b)
		}
		if !sameNumber(string(ta), string(tb)) {
			return fmt.Sprintf("%s: %s vs %s", path, ta, tb)
		}
		return ""
	case nil:
		if b != nil {
			return fmt.Sprintf("%s: null vs %T", path, b)
		}
		return ""
	default:
		if !reflect.DeepEqual(a, b) {
			return fmt.Sprintf("%s: %v vs %v", path, a, b)
		}
		return ""
	}
}

func sameNumber(a, b string) bool {
	if a == b {
		return true
	}
	ra, ok1 := new(big.Rat).SetString(a)
	rb, ok2 := new(big.Rat).SetString(b)
	if ok1 && ok2 {
		return ra.Cmp(rb) == 0
	}
	return false
}
