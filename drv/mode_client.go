package drv

import (
	"bytes"
	"compress/gzip"
	"context"
	"fmt"
	"io"
	"net/http"
	"net/url"
	"reflect"
	"sort"
	"strconv"
	"strings"
	"time"

	"verif/oas"
)

func init() {
	modes["resp"] = modeResp
	modes["client"] = modeClient
}

// ---------- shared: implementers, documented responses, exercising ------

type respImpl struct {
	T      reflect.Type
	Ptr    bool
	Doc    *oas.Response // matched documented response (nil = unmatched)
	Status int           // status observed for the zero value (Code=599 for default kinds)
}

func uniqueImpls(op *Op) []*respImpl {
	seen := map[reflect.Type]bool{}
	var out []*respImpl
	for _, t := range op.Impl {
		if !seen[t] {
			seen[t] = true
			out = append(out, &respImpl{T: t})
		}
	}
	for _, t := range op.ImplPtr {
		if !seen[t] {
			seen[t] = true
			out = append(out, &respImpl{T: t, Ptr: true})
		}
	}
	return out
}

func hasCode(t reflect.Type) bool {
	f, ok := t.FieldByName("Code")
	return ok && f.Type.Kind() == reflect.Int
}

func docResponse(op *Op, status int, isDefault bool) *oas.Response {
	for i := range op.Spec.Responses {
		r := &op.Spec.Responses[i]
		if isDefault && r.Status == "default" {
			return r
		}
		if !isDefault && r.Status == strconv.Itoa(status) {
			return r
		}
	}
	return nil
}

// serveOne serves one request to op with the handler returning resp.
type exerciser struct {
	c       *Ctx
	api     reflect.Value
	h       http.Handler
	next    reflect.Value
	parsed  reflect.Value
	parseEr error
	ran     bool
	ranKey  string
}

func (c *Ctx) newExerciser() *exerciser {
	e := &exerciser{c: c}
	e.api = c.NewAPI(func(op *Op) func(ctx context.Context, req reflect.Value) reflect.Value {
		return func(ctx context.Context, req reflect.Value) reflect.Value {
			e.ran = true
			e.ranKey = op.Key
			e.parsed, e.parseEr = Parse(req)
			return e.next
		}
	})
	c.installAcceptAllAuth(e.api)
	e.h = c.Handler(e.api)
	return e
}

func (e *exerciser) request(op *Op) *http.Request {
	c := e.c
	r := NewRequest(op.Method, c.Base+c.canonicalPath(op), c.canonicalQuery(op), c.canonicalHeaders(op), nil)
	if op.Spec.Body != nil && op.Spec.Body.JSON {
		dg := &DocGen{Doc: c.Doc, Rng: c.Rng}
		r.Body = io.NopCloser(bytes.NewReader(EncodeDoc(dg.Valid(op.Spec.Body.RawSchema, 0), 0)))
		r.Header.Set("Content-Type", "application/json")
	}
	c.addAllCredentials(r, "good")
	return r
}

func (e *exerciser) serve(op *Op, resp reflect.Value) (*recWriter, any) {
	e.next = resp
	e.ran = false
	w := newRec()
	var pv any
	func() {
		defer func() { pv = recover() }()
		e.h.ServeHTTP(w, e.request(op))
	}()
	return w, pv
}

// fillResponse generates a value of an implementer guided by its documented response.
func (c *Ctx) fillResponse(g *Gen, ri *respImpl, rawBody *string) reflect.Value {
	v := reflect.New(ri.T).Elem()
	t := ri.T
	for i := 0; i < t.NumField(); i++ {
		f := v.Field(i)
		sf := t.Field(i)
		if !f.CanSet() {
			continue
		}
		switch {
		case sf.Name == "Code" && f.Kind() == reflect.Int:
			// any final status that may carry a body (1xx, 204 and 304 cannot)
			f.SetInt(int64([]int{400, 401, 418, 500, 503, 299, 302, 599, 205, 203, 207, 226, 300, 308, 422, 451, 511, 600, 999}[g.Rng.Intn(19)]))
		case sf.Name == "Body":
			if f.Type() == readerType || f.Type() == readCloserType {
				s := g.str() + g.str()
				if rawBody != nil {
					*rawBody = s
				}
				if f.Type() == readerType {
					f.Set(reflect.ValueOf(io.Reader(strings.NewReader(s))))
				} else {
					f.Set(reflect.ValueOf(io.NopCloser(strings.NewReader(s))))
				}
			} else {
				var s oas.M
				if ri.Doc != nil {
					s = ri.Doc.Schema
				}
				g.fill(f, s, 0)
			}
		case sf.Name == "Headers" && f.Kind() == reflect.Struct:
			for j := 0; j < f.NumField(); j++ {
				var hs oas.M
				if ri.Doc != nil {
					for _, h := range ri.Doc.Headers {
						if normName(h.Name) == normName(f.Type().Field(j).Name) {
							hs = h.Schema
						}
					}
				}
				g.fill(f.Field(j), hs, 0)
				sanitizeHeaderValue(f.Field(j), true)
			}
		default:
			g.fill(f, nil, 0)
		}
	}
	return v
}

// sanitizeHeaderValue restricts strings to what survives an HTTP header:
// visible ASCII without surrounding blanks; required (non-wrapper) arrays
// non-empty, optional arrays unset or non-empty.
func sanitizeHeaderValue(v reflect.Value, topLevel bool) {
	switch {
	case isWrapper(v.Type()):
		if v.Field(0).Bool() {
			inner := v.Field(1)
			if inner.Kind() == reflect.Slice && inner.Len() == 0 {
				v.Field(0).SetBool(false)
				inner.Set(reflect.Zero(inner.Type()))
				return
			}
			sanitizeHeaderValue(inner, false)
		}
	case v.Kind() == reflect.String:
		v.SetString(headerSafe(v.String()))
	case v.Kind() == reflect.Slice && v.Type() != rawType:
		if v.Len() == 0 {
			n := reflect.MakeSlice(v.Type(), 1, 1)
			fillScalarDefault(n.Index(0))
			v.Set(n)
		}
		for i := 0; i < v.Len(); i++ {
			sanitizeHeaderValue(v.Index(i), false)
		}
	}
}

func fillScalarDefault(v reflect.Value) {
	switch v.Kind() {
	case reflect.String:
		v.SetString("x")
	case reflect.Struct:
		if v.Type() == timeType {
			v.Set(reflect.ValueOf(time.Date(2020, 1, 2, 3, 4, 5, 0, time.UTC)))
		}
	}
}

func headerSafe(s string) string {
	var b strings.Builder
	for _, r := range s {
		if r > 0x20 && r < 0x7f {
			b.WriteRune(r)
		} else if r == ' ' {
			b.WriteByte(' ')
		}
	}
	// an empty field value is legal HTTP and stays empty
	return strings.TrimSpace(b.String())
}

// ---------- C02 ---------------------------------------------------------

func modeResp(c *Ctx) {
	if len(c.Ops) == 0 {
		return
	}
	e := c.newExerciser()
	jv := &JSV{Doc: c.Doc}
	nvals := c.Case.Int("values", 40)
	for _, op := range c.Ops {
		if op.Spec == nil {
			continue
		}
		impls := uniqueImpls(op)
		in0 := op.Key
		covered := map[string][]string{}
		for _, ri := range impls {
			// probe: where does the zero value go?
			zero := reflect.New(ri.T).Elem()
			fillReaders(zero)
			isDef := hasCode(ri.T)
			if isDef {
				zero.FieldByName("Code").SetInt(599)
			}
			val := zero
			if ri.Ptr {
				p := reflect.New(ri.T)
				p.Elem().Set(zero)
				val = p
			}
			w, pv := e.serve(op, val)
			if pv != nil {
				c.Viol("panic", "writing a response panicked: "+firstLine(fmt.Sprint(pv)), in0+" "+ri.T.Name(), nil, nil)
				continue
			}
			ri.Status = w.Status
			ri.Doc = docResponse(op, w.Status, isDef)
			if ri.Doc == nil {
				c.Viol("undocumented-response", "a type of the package satisfies the operation's response interface but writes a status the operation does not document", fmt.Sprintf("%s: type %s", op.Key, ri.T.Name()), documentedStatuses(op), w.Status)
				continue
			}
			covered[ri.Doc.Status] = append(covered[ri.Doc.Status], ri.T.Name())
		}
		for _, dr := range op.Spec.Responses {
			switch n := len(covered[dr.Status]); {
			case n == 0:
				c.Viol("response-not-returnable", "a documented response has no type that the handler can return", op.Key+" response "+dr.Status, "one implementer", implNames(impls))
			case n > 1:
				c.Viol("response-duplicated", "several types implement the same documented response", op.Key+" response "+dr.Status, "one implementer", covered[dr.Status])
			}
		}
		c.Stat("operations", 1)
		c.Stat("implementers", len(impls))
		c.Distinct("op:" + op.Key)
		// exercise every implementer with values
		for _, ri := range impls {
			if ri.Doc == nil {
				continue
			}
			g := &Gen{Rng: c.Rng, Doc: c.Doc}
			for i := 0; i < nvals; i++ {
				var raw string
				v := c.fillResponse(g, ri, &raw)
				val := v
				if ri.Ptr {
					p := reflect.New(ri.T)
					p.Elem().Set(v)
					val = p
				}
				in := fmt.Sprintf("%s -> %s %s", op.Key, ri.T.Name(), trunc(dumpValue(v), 300))
				if i%5 == 1 {
					// a previous response of this operation hit a broken connection: must not leak into the next one
					var raw0 string
					v0 := c.fillResponse(g, ri, &raw0)
					e.next = v0
					bw := newRec()
					bw.WriteErr = fmt.Errorf("broken pipe")
					func() {
						defer func() { _ = recover() }()
						e.h.ServeHTTP(bw, e.request(op))
					}()
					c.Stat("failed_writes", 1)
				}
				w, pv := e.serve(op, val)
				c.Stat("responses_written", 1)
				if pv != nil {
					c.Viol("panic", "writing a response panicked: "+firstLine(fmt.Sprint(pv)), in, nil, nil)
					continue
				}
				c.checkWritten(op, ri, v, raw, w, in, jv)
				if i == 0 {
					c.Sample(map[string]any{"operation": op.Key, "implementer": ri.T.Name(), "documented_response": ri.Doc.Status, "status": w.Status, "headers": w.Frozen, "body": trunc(w.Body.String(), 120)})
				}
				// the public Write method must give the same bytes
				if i%8 == 0 {
					v2 := v
					if raw != "" || hasReader(v) {
						v2 = reflect.New(ri.T).Elem()
						v2.Set(v)
						resetReaders(v2, raw)
					}
					w2 := newRec()
					if i%16 == 0 && ri.Doc.ContentType != "" {
						// a writer on which an outer layer already put a default
						// Content-Type: the documented one must still go out
						w2.hdr.Set("Content-Type", "text/html; charset=stale")
						c.Stat("writes_over_stale_content_type", 1)
					}
					if err := callWrite(v2, ri, w2, w.Status); err != nil {
						c.Stat("no_public_write", 1)
					} else if w2.Status != w.Status || !sameHeader(w2.Frozen, w.Frozen) || !jsonOrBytesEqual(w2.Body.Bytes(), w.Body.Bytes()) {
						c.Viol("write-differs", "the public Write method emits something else than the handler path", in, fmt.Sprint(w.Status, w.Frozen, trunc(w.Body.String(), 200)), fmt.Sprint(w2.Status, w2.Frozen, trunc(w2.Body.String(), 200)))
					}
				}
			}
		}
	}
}

func implNames(impls []*respImpl) []string {
	var out []string
	for _, i := range impls {
		out = append(out, i.T.Name())
	}
	return out
}

func documentedStatuses(op *Op) []string {
	var out []string
	for _, r := range op.Spec.Responses {
		out = append(out, r.Status)
	}
	return out
}

func hasReader(v reflect.Value) bool {
	f := v.FieldByName("Body")
	return f.IsValid() && (f.Type() == readerType || f.Type() == readCloserType)
}

func resetReaders(v reflect.Value, content string) {
	f := v.FieldByName("Body")
	if !f.IsValid() {
		return
	}
	switch f.Type() {
	case readerType:
		f.Set(reflect.ValueOf(io.Reader(strings.NewReader(content))))
	case readCloserType:
		f.Set(reflect.ValueOf(io.NopCloser(strings.NewReader(content))))
	}
}

func callWrite(v reflect.Value, ri *respImpl, w http.ResponseWriter, code int) (err error) {
	defer func() {
		if p := recover(); p != nil {
			err = fmt.Errorf("panic: %v", p)
		}
	}()
	recv := v
	m := recv.MethodByName("Write")
	if !m.IsValid() && recv.CanAddr() {
		m = recv.Addr().MethodByName("Write")
	}
	if !m.IsValid() {
		p := reflect.New(ri.T)
		p.Elem().Set(v)
		m = p.MethodByName("Write")
	}
	if !m.IsValid() {
		return fmt.Errorf("no Write method")
	}
	switch m.Type().NumIn() {
	case 1:
		m.Call([]reflect.Value{reflect.ValueOf(w)})
	case 2:
		m.Call([]reflect.Value{reflect.ValueOf(w), reflect.ValueOf(code)})
	default:
		return fmt.Errorf("unexpected Write signature")
	}
	return nil
}

func sameHeader(a, b http.Header) bool {
	if len(a) != len(b) {
		return false
	}
	for k, va := range a {
		vb := b[k]
		if strings.Join(va, "\x00") != strings.Join(vb, "\x00") {
			return false
		}
	}
	return true
}

func jsonOrBytesEqual(a, b []byte) bool {
	if bytes.Equal(a, b) {
		return true
	}
	return DiffJSON(a, b) == ""
}

// checkWritten verifies status, Content-Type, headers and body of one written response.
func (c *Ctx) checkWritten(op *Op, ri *respImpl, v reflect.Value, raw string, w *recWriter, in string, jv *JSV) {
	dr := ri.Doc
	if w.Responses() != 1 {
		c.Viol("write-count", "a response was not written exactly once", in, 1, w.Responses())
	}
	wantStatus := 0
	if dr.Status == "default" {
		wantStatus = int(v.FieldByName("Code").Int())
	} else {
		wantStatus, _ = strconv.Atoi(dr.Status)
	}
	if w.Status != wantStatus {
		c.Viol("status", "written status code is not the documented one (the caller's code for default)", in, wantStatus, w.Status)
	}
	ct := w.Frozen.Get("Content-Type")
	switch {
	case dr.ContentType == "":
		if w.Body.Len() > 0 {
			c.Viol("body", "a response documented without content wrote a body", in, "", trunc(w.Body.String(), 100))
		}
	case !strings.HasPrefix(ct, dr.ContentType):
		// a response declaring several non-JSON media types documents each of them
		ok := false
		if !dr.JSON {
			for _, mt := range dr.MediaTypes {
				if ct != "" && strings.HasPrefix(ct, mt) {
					ok = true
				}
			}
		}
		if !ok {
			c.Viol("content-type", "Content-Type is not the documented media type", in, dr.ContentType, ct)
		}
	}
	// headers
	declared := map[string]oas.Header{}
	for _, h := range dr.Headers {
		declared[http.CanonicalHeaderKey(h.Name)] = h
	}
	for k := range w.Frozen {
		if k == "Content-Type" {
			continue
		}
		if _, ok := declared[k]; !ok {
			c.Viol("header-undeclared", "an undeclared response header was written", in, setList(boolKeys(declared)), k)
		}
	}
	hf := v.FieldByName("Headers")
	for ck, h := range declared {
		var fv reflect.Value
		if hf.IsValid() {
			if idx, ok := fieldByNorm(hf.Type(), h.Name); ok {
				fv = hf.Field(idx)
			}
		}
		if !fv.IsValid() {
			c.Stat("unmapped", 1)
			c.Viol("header-field-missing", "a declared response header has no field in the response value: it can never be written", in, ck, "no such field in "+v.Type().Name()+".Headers")
			continue
		}
		got := w.Frozen[ck]
		set := true
		inner := fv
		if isWrapper(fv.Type()) {
			set = fv.Field(0).Bool()
			inner = fv.Field(1)
		}
		if !set {
			if len(got) > 0 {
				c.Viol("header-value", "an unset optional header was written", in, ck+" absent", got)
			}
			continue
		}
		if d := headerMatches(inner, got, h.Schema, c.Doc); d != "" {
			c.Viol("header-value", "a declared header does not carry the value of the response: "+d, in, fmt.Sprintf("%s=%s", ck, trunc(dumpValue(inner), 100)), got)
		}
	}
	// body
	if dr.JSON {
		dv, err := DecodeJSON(w.Body.Bytes())
		if err != nil {
			c.Viol("body", "JSON response body is not one valid JSON value", in, "valid JSON", trunc(w.Body.String(), 200)+" ("+err.Error()+")")
		} else if errs := jv.Validate(dv, dr.Schema); len(errs) > 0 {
			c.Viol("body", "JSON response body does not validate against the declared schema: "+stripPath(errs[0]), in, "valid for schema", map[string]any{"body": trunc(w.Body.String(), 300), "errors": errs})
		}
	} else if dr.ContentType != "" && hasReader(v) {
		if w.Body.String() != raw {
			c.Viol("body", "raw response body differs from the reader's content", in, trunc(raw, 100), trunc(w.Body.String(), 100))
		}
	}
}

func boolKeys(m map[string]oas.Header) map[string]bool {
	o := map[string]bool{}
	for k := range m {
		o[k] = true
	}
	return o
}

// headerMatches parses the written header texts by the declared type and
// compares them with the Go value ("" = match).
func headerMatches(v reflect.Value, texts []string, s oas.M, doc *oas.Doc) string {
	kind := oas.Kind(s)
	if v.Kind() == reflect.Slice && v.Type() != rawType {
		if v.Len() != len(texts) {
			return fmt.Sprintf("%d values for %d elements", len(texts), v.Len())
		}
		es := doc.Schema(s["items"])
		for i := range texts {
			if d := headerMatches(v.Index(i), texts[i:i+1], es, doc); d != "" {
				return d
			}
		}
		return ""
	}
	if len(texts) != 1 {
		return fmt.Sprintf("%d values for a scalar", len(texts))
	}
	text := texts[0]
	got := unwrapValue(v)
	switch g := got.(type) {
	case string:
		if g != text {
			return "string differs"
		}
	case int, int32, int64:
		z := bi(text)
		if z == nil || !sameTyped(got, z) {
			return "integer text differs"
		}
	case float64:
		f, err := strconv.ParseFloat(text, 64)
		if err != nil || f != g {
			return "number text differs"
		}
	case float32:
		f, err := strconv.ParseFloat(text, 32)
		if err != nil || float32(f) != g {
			return "number text differs"
		}
	case bool:
		if text != strconv.FormatBool(g) {
			return "boolean text differs"
		}
	case time.Time:
		t, err := time.Parse(time.RFC3339Nano, text)
		if err != nil || !t.Equal(g) {
			return "date-time text differs"
		}
	default:
		_ = kind
	}
	return ""
}

// ---------- C09 / C10 ---------------------------------------------------

// strictBody behaves like the body of a real HTTP response: reading after
// Close fails.
type strictBody struct {
	r      io.Reader
	closed bool
	ctx    context.Context // response bodies: the context of the request they answer
}

func (b *strictBody) Read(p []byte) (int, error) {
	if b.closed {
		return 0, fmt.Errorf("http: read on closed response body")
	}
	if b.ctx != nil {
		// net/http's transport fails the body of a response whose request
		// context has ended, whatever is still unread
		if err := b.ctx.Err(); err != nil {
			return 0, err
		}
	}
	return b.r.Read(p)
}

func (b *strictBody) Close() error { b.closed = true; return nil }

type tap struct {
	h       http.Handler
	lastReq *http.Request
	stub    *http.Response
	bodyIn  []byte
}

func (t *tap) do(r *http.Request) (*http.Response, error) {
	t.lastReq = r
	if r.Body != nil {
		t.bodyIn, _ = io.ReadAll(r.Body)
		// like a server-side request body: reading after Close fails
		r.Body = &strictBody{r: bytes.NewReader(t.bodyIn)}
	} else {
		t.bodyIn = nil
		r.Body = http.NoBody
	}
	if t.stub != nil {
		return t.stub, nil
	}
	w := newRec()
	t.h.ServeHTTP(w, r)
	if w.Frozen == nil {
		w.Frozen = http.Header{}
		w.Status = 200
	}
	hdr := w.Frozen.Clone()
	body := w.Body.Bytes()
	if strings.Contains(r.Header.Get("Accept-Encoding"), "gzip") && len(body) > 0 {
		// the caller asked for gzip itself (net/http only undoes the compression it
		// asked for on its own): answer like a server with a compression layer
		var zb bytes.Buffer
		zw := gzip.NewWriter(&zb)
		_, _ = zw.Write(body)
		_ = zw.Close()
		body = zb.Bytes()
		hdr.Set("Content-Encoding", "gzip")
		hdr.Del("Content-Length")
	}
	return &http.Response{StatusCode: w.Status, Status: strconv.Itoa(w.Status), Header: hdr, Body: &strictBody{r: bytes.NewReader(body), ctx: r.Context()}, Request: r, Proto: "HTTP/1.1", ProtoMajor: 1, ProtoMinor: 1}, nil
}

func (c *Ctx) newClient(t *tap) (reflect.Value, bool) {
	ct, ok := c.Reg.Types["Client"]
	if !ok {
		return reflect.Value{}, false
	}
	cl := reflect.New(ct)
	cl.Elem().FieldByName("BaseURL").SetString("http://example.com" + c.Base)
	hc := cl.Elem().FieldByName("HTTPClient")
	fn, ok := c.Reg.Types["HTTPClientFunc"]
	if !ok {
		return reflect.Value{}, false
	}
	f := reflect.MakeFunc(fn, func(args []reflect.Value) []reflect.Value {
		resp, err := t.do(args[0].Interface().(*http.Request))
		ev := reflect.Zero(errType)
		if err != nil {
			ev = reflect.ValueOf(err)
		}
		return []reflect.Value{reflect.ValueOf(resp), ev}
	})
	hc.Set(f)
	return cl, true
}

func callClient(cl reflect.Value, op *Op, params reflect.Value) (res reflect.Value, err error, pv any) {
	defer func() { pv = recover() }()
	outs := op.ClientM.Func.Call([]reflect.Value{cl, reflect.ValueOf(context.Background()), params})
	if e, ok := outs[1].Interface().(error); ok && e != nil {
		err = e
	}
	return outs[0], err, nil
}

func modeClient(c *Ctx) {
	if len(c.Ops) == 0 {
		return
	}
	e := c.newExerciser()
	t := &tap{h: e.h}
	cl, ok := c.newClient(t)
	if !ok {
		c.Stat("no_client", 1)
		return
	}
	nvals := c.Case.Int("values", 40)
	rr := c.refRouter()
	jv := &JSV{Doc: c.Doc}
	for _, op := range c.Ops {
		if op.Spec == nil || op.ClientM == nil {
			c.Stat("no_client_method", 1)
			continue
		}
		impls := uniqueImpls(op)
		for _, ri := range impls {
			zero := reflect.New(ri.T).Elem()
			fillReaders(zero)
			isDef := hasCode(ri.T)
			if isDef {
				zero.FieldByName("Code").SetInt(599)
			}
			w, pv := e.serve(op, zero)
			if pv == nil {
				ri.Status = w.Status
				ri.Doc = docResponse(op, w.Status, isDef)
			}
		}
		var defaultImpl *respImpl
		for _, ri := range impls {
			if ri.Doc != nil && ri.Doc.Status == "default" {
				defaultImpl = ri
			}
		}
		c.Distinct("op:" + op.Key)
		// ---- C09: requests
		gp := &Gen{Rng: c.Rng, Doc: c.Doc}
		for i := 0; i < nvals; i++ {
			var rawBody string
			gp.HugeBody = i == 1 && op.Spec.Body != nil && op.Spec.Body.JSON
			params := c.genParams(gp, op, &rawBody)
			if gp.HugeBody {
				gp.HugeBody = false
			} else if i == 1 && op.Spec.Body != nil && op.Spec.Body.JSON {
				c.Stat("huge_json_bodies", 1)
			}
			e.next = reflect.Value{}
			e.ran = false
			t.stub = nil
			in := fmt.Sprintf("%s %s", op.Key, trunc(dumpValue(params), 400))
			_, err, pv := callClient(cl, op, params)
			c.Stat("client_requests", 1)
			if pv != nil {
				c.Viol("panic", "client call panicked: "+firstLine(fmt.Sprint(pv)), in, nil, nil)
				continue
			}
			if t.lastReq != nil && t.lastReq.URL != nil {
				// a path value may make the URL fit a more literal template of the same spec: the
				// spec is ambiguous for that value, not the client wrong (outside the C09 domain)
				wp := t.lastReq.URL.Path
				if tp, _ := rr.Match(op.Method, wp); tp != op.Path && rr.TemplateMatches(op.Path, wp) {
					c.Stat("ambiguous_path_value", 1)
					continue
				}
			}
			if !e.ran {
				c.Viol("request-lost", "the request built by the client did not reach its operation's handler", in, "handler runs", fmt.Sprintf("err=%v url=%v", err, urlOf(t.lastReq)))
				continue
			}
			if e.parseEr != nil {
				c.Viol("request-rejected", "the server's Parse() rejected a request the client built from expressible values", in, "success", fmt.Sprintf("%v (url %s)", e.parseEr, urlOf(t.lastReq)))
				continue
			}
			if d := diffParams(params, e.parsed, rawBody); d != "" {
				c.Viol("request-differs", "handler's parsed parameters differ from what the caller sent: "+stripIndex(d), in, "equal", map[string]string{"difference": d, "url": urlOf(t.lastReq), "parsed": trunc(dumpValue(e.parsed), 400)})
			}
			msgs := c.validateWire(op, t.lastReq, t.bodyIn, rr, jv)
			if c.Kin != nil {
				kerr := c.Kin.ValidateRequest(t.lastReq, c.Base, t.bodyIn)
				switch {
				case kerr == nil && len(msgs) == 0:
					c.Stat("second_opinion_agree_valid", 1)
				case kerr != nil && len(msgs) > 0:
					c.Stat("second_opinion_agree_invalid", 1)
				case kerr != nil:
					c.Stat("second_opinion_only_kin_rejects", 1)
					c.Note("kin-openapi rejects, wire validator accepts: " + op.Key + " " + urlOf(t.lastReq) + ": " + trunc(kerr.Error(), 200))
				default:
					c.Stat("second_opinion_only_mine_rejects", 1)
				}
			}
			if len(msgs) > 0 {
				c.Viol("wire-invalid", "the request on the wire is not valid for the operation: "+msgs[0], in, "valid request", map[string]any{"url": urlOf(t.lastReq), "headers": t.lastReq.Header, "problems": msgs})
			}
			if i == 0 {
				c.Sample(map[string]any{"op": op.Key, "url": urlOf(t.lastReq), "headers": t.lastReq.Header})
			}
		}
		// ---- C09 through the package's own in-process client (API.LocalClient)
		if lcm := e.api.MethodByName("LocalClient"); lcm.IsValid() && lcm.Type().NumIn() == 0 && lcm.Type().NumOut() == 1 {
			lcl := lcm.Call(nil)[0]
			if lcl.Type() == cl.Type() {
				var rawBody string
				params := c.genParams(&Gen{Rng: c.Rng, Doc: c.Doc}, op, &rawBody)
				e.next = reflect.Value{}
				e.ran, e.ranKey = false, ""
				in := fmt.Sprintf("%s %s through API.LocalClient()", op.Key, trunc(dumpValue(params), 300))
				_, err, pv := callClient(lcl, op, params)
				c.Stat("local_client_requests", 1)
				switch {
				case pv != nil:
					c.Viol("panic", "client call panicked: "+firstLine(fmt.Sprint(pv)), in, nil, nil)
				case !e.ran:
					// (a request that ran another operation: a path value fitting a more literal template, see above)
					c.Viol("request-lost", "the request built by the package's local client did not reach any operation's handler", in, "handler runs", fmt.Sprintf("err=%v base path %q", err, c.Base))
				}
			}
		}
		// ---- C10: responses
		zp := reflect.New(op.ParamsType).Elem()
		canonParams := c.genParams(&Gen{Rng: c.Rng, Doc: c.Doc}, op, nil)
		_ = zp
		for _, ri := range impls {
			if ri.Doc == nil && !ri.Ptr {
				// a value the handler can return, but which writes a status the operation
				// does not document (C02 reports that): the caller must at least not be
				// handed an error or another documented kind for it
				var raw string
				v := c.fillResponse(&Gen{Rng: c.Rng, Doc: c.Doc}, ri, &raw)
				if f := v.FieldByName("Code"); !f.IsValid() {
					e.next = v
					t.stub = nil
					e.ranKey = ""
					res, err, pv := callClient(cl, op, canonParams)
					c.Stat("client_responses", 1)
					in := fmt.Sprintf("%s <- %s %s", op.Key, ri.T.Name(), trunc(dumpValue(v), 300))
					got := res
					for got.IsValid() && got.Kind() == reflect.Interface {
						got = got.Elem()
					}
					switch {
					case e.ranKey != "" && e.ranKey != op.Key:
					case pv != nil:
						c.Viol("panic", "client call panicked: "+firstLine(fmt.Sprint(pv)), in, nil, nil)
					case err != nil:
						c.Viol("response-error", "the client returned an error for a documented response", in, "value of kind "+ri.T.Name(), err.Error())
					case got.IsValid() && got.Type() != ri.T:
						c.Viol("response-kind", "the client returned another response kind than the handler sent", in, ri.T.Name(), got.Type().Name())
					}
				}
			}
			if ri.Doc == nil || ri.Ptr {
				continue
			}
			g := &Gen{Rng: c.Rng, Doc: c.Doc}
			for i := 0; i < nvals; i++ {
				var raw string
				v := c.fillResponse(g, ri, &raw)
				if f := v.FieldByName("Code"); f.IsValid() && f.Kind() == reflect.Int {
					// a default response delivered with a documented status would be decoded as that documented response
					for isDocumented(op, int(f.Int())) {
						f.SetInt(f.Int() + 1)
					}
				}
				e.next = v
				t.stub = nil
				in := fmt.Sprintf("%s <- %s %s", op.Key, ri.T.Name(), trunc(dumpValue(v), 300))
				e.ranKey = ""
				res, err, pv := callClient(cl, op, canonParams)
				c.Stat("client_responses", 1)
				if e.ranKey != "" && e.ranKey != op.Key {
					// the canonical path values fit a more literal template: ambiguous spec, no verdict
					c.Stat("ambiguous_path_value", 1)
					canonParams = c.genParams(&Gen{Rng: c.Rng, Doc: c.Doc}, op, nil)
					continue
				}
				if pv != nil {
					c.Viol("panic", "client call panicked: "+firstLine(fmt.Sprint(pv)), in, nil, nil)
					continue
				}
				if err != nil {
					c.Viol("response-error", "the client returned an error for a documented response", in, "value of kind "+ri.T.Name(), err.Error())
					continue
				}
				got := res
				for got.Kind() == reflect.Interface {
					got = got.Elem()
				}
				if !got.IsValid() || got.Type() != ri.T {
					tn := "<nil>"
					if got.IsValid() {
						tn = got.Type().Name()
					}
					c.Viol("response-kind", "the client returned another response kind than the handler sent", in, ri.T.Name(), tn)
					continue
				}
				if i == 0 {
					c.Sample(map[string]any{"operation": op.Key, "response_kind": ri.T.Name(), "sent": trunc(dumpValue(v), 160), "received_equal": true})
				}
				if d := diffResponse(v, got, raw); d != "" {
					c.Viol("response-differs", "the client's response value differs from the handler's: "+stripIndex(d), in, "equal", d)
				}
			}
		}
		// undocumented statuses through a stub transport
		statuses := []int{100, 199, 200, 201, 202, 203, 204, 205, 226, 300, 301, 302, 304, 400, 401, 403, 404, 405, 409, 410, 418, 422, 429, 451, 499, 500, 501, 502, 503, 504, 599}
		for _, st := range statuses {
			if isDocumented(op, st) {
				continue
			}
			for _, withBody := range []bool{false, true} {
				body := ""
				hdr := http.Header{}
				if withBody {
					body = `{"unexpected":true}`
					hdr.Set("Content-Type", "application/json")
				}
				t.stub = &http.Response{StatusCode: st, Status: strconv.Itoa(st), Header: hdr, Body: io.NopCloser(strings.NewReader(body)), Proto: "HTTP/1.1", ProtoMajor: 1, ProtoMinor: 1}
				in := fmt.Sprintf("%s <- undocumented status %d (body=%v)", op.Key, st, withBody)
				res, err, pv := callClient(cl, op, canonParams)
				t.stub = nil
				c.Stat("undocumented_statuses", 1)
				if pv != nil {
					c.Viol("panic", "client call panicked: "+firstLine(fmt.Sprint(pv)), in, nil, nil)
					continue
				}
				got := res
				for got.IsValid() && got.Kind() == reflect.Interface {
					got = got.Elem()
				}
				if defaultImpl == nil {
					if err == nil {
						tn := "<nil>"
						if got.IsValid() {
							tn = got.Type().Name()
						}
						c.Viol("undocumented-status", "an undocumented status was delivered as success although the operation has no default response", in, "error", tn)
					}
					continue
				}
				if err != nil {
					// a default response whose declared body/headers cannot be decoded from the synthetic reply may err
					c.Stat("undocumented_default_decode_error", 1)
					continue
				}
				if !got.IsValid() || got.Type() != defaultImpl.T {
					c.Viol("undocumented-status", "an undocumented status was delivered as a documented non-default response", in, defaultImpl.T.Name(), fmt.Sprint(got))
					continue
				}
				if code := got.FieldByName("Code"); code.IsValid() && int(code.Int()) != st {
					c.Viol("undocumented-status", "the default response does not carry the received status code", in, st, code.Int())
				}
			}
		}
	}
}

func isDocumented(op *Op, st int) bool {
	for _, r := range op.Spec.Responses {
		if r.Status == strconv.Itoa(st) {
			return true
		}
	}
	return false
}

func urlOf(r *http.Request) string {
	if r == nil || r.URL == nil {
		return "<no request>"
	}
	return r.Method + " " + r.URL.String()
}

var indexRe = strings.NewReplacer("0", "", "1", "", "2", "", "3", "", "4", "", "5", "", "6", "", "7", "", "8", "", "9", "")

// stripIndex keeps only the field path of a difference (stable across seeds).
func stripIndex(d string) string {
	if i := strings.Index(d, ":"); i >= 0 {
		d = d[:i]
	}
	return indexRe.Replace(d)
}

// genParams generates a request value inside the C09 domain.
func (c *Ctx) genParams(g *Gen, op *Op, rawBody *string) reflect.Value {
	v := reflect.New(op.ParamsType).Elem()
	t := op.ParamsType
	find := func(in, name string) *oas.Param {
		for i := range op.Spec.Params {
			p := &op.Spec.Params[i]
			if p.In == in && normName(p.Name) == normName(name) {
				return p
			}
		}
		return nil
	}
	for i := 0; i < t.NumField(); i++ {
		f := v.Field(i)
		sf := t.Field(i)
		switch sf.Name {
		case "Query", "Headers", "Path":
			in := map[string]string{"Query": "query", "Headers": "header", "Path": "path"}[sf.Name]
			for j := 0; j < f.NumField(); j++ {
				var s oas.M
				if p := find(in, f.Type().Field(j).Name); p != nil {
					s = p.Schema
				}
				g.fill(f.Field(j), s, 0)
				switch in {
				case "header":
					sanitizeHeaderValue(f.Field(j), true)
				case "query":
					sanitizeArrays(f.Field(j))
				case "path":
					sanitizePath(f.Field(j))
				}
			}
		case "Body":
			if f.Type() == readerType || f.Type() == readCloserType {
				s := g.str() + g.str()
				if rawBody != nil {
					*rawBody = s
				}
				if f.Type() == readerType {
					f.Set(reflect.ValueOf(io.Reader(strings.NewReader(s))))
				} else {
					f.Set(reflect.ValueOf(io.NopCloser(strings.NewReader(s))))
				}
			} else {
				var s oas.M
				if op.Spec.Body != nil {
					s = op.Spec.Body.Schema
				}
				if g.HugeBody {
					g.HugeBody = false
					g.HugeNext = true
				}
				g.fill(f, s, 0)
				g.HugeNext = false
				if isWrapper(f.Type()) && op.Spec.Body != nil && op.Spec.Body.Required {
					// nothing: a required body that is a wrapper is a nullable schema
					_ = s
				}
			}
		default:
			g.fill(f, nil, 0)
		}
	}
	return v
}

// sanitizeArrays: an empty list has no wire form in form/explode: required
// arrays non-empty, optional arrays unset or non-empty.
func sanitizeArrays(v reflect.Value) {
	switch {
	case isWrapper(v.Type()):
		if v.Field(0).Bool() && v.Field(1).Kind() == reflect.Slice && v.Field(1).Len() == 0 {
			v.Field(0).SetBool(false)
			v.Field(1).Set(reflect.Zero(v.Field(1).Type()))
		}
	case v.Kind() == reflect.Slice && v.Type() != rawType && v.Len() == 0:
		n := reflect.MakeSlice(v.Type(), 1, 1)
		fillScalarDefault(n.Index(0))
		v.Set(n)
	}
}

// sanitizePath: path values are non-empty and '/'-free.
func sanitizePath(v reflect.Value) {
	for isWrapper(v.Type()) {
		v.Field(0).SetBool(true)
		v = v.Field(1)
	}
	if v.Kind() == reflect.String {
		s := strings.ReplaceAll(v.String(), "/", "_")
		if s == "" {
			s = "seg"
		}
		v.SetString(s)
	}
}

// diffParams compares sent and parsed parameter structs (raw bodies by content).
func diffParams(sent, parsed reflect.Value, rawBody string) string {
	t := sent.Type()
	for i := 0; i < t.NumField(); i++ {
		sf := t.Field(i)
		a, b := sent.Field(i), parsed.Field(i)
		if sf.Name == "Body" && (sf.Type == readerType || sf.Type == readCloserType) {
			var got []byte
			if !b.IsNil() {
				got, _ = io.ReadAll(b.Interface().(io.Reader))
			}
			if string(got) != rawBody {
				return fmt.Sprintf(".Body: raw content %q vs %q", trunc(rawBody, 40), trunc(string(got), 40))
			}
			continue
		}
		if d := diffValues(a, b, "."+sf.Name); d != "" {
			return d
		}
	}
	return ""
}

func diffResponse(sent, got reflect.Value, raw string) string {
	t := sent.Type()
	for i := 0; i < t.NumField(); i++ {
		sf := t.Field(i)
		a, b := sent.Field(i), got.Field(i)
		if sf.Name == "Body" && (sf.Type == readerType || sf.Type == readCloserType) {
			var gb []byte
			if !b.IsNil() {
				gb, _ = io.ReadAll(b.Interface().(io.Reader))
			}
			if string(gb) != raw {
				return fmt.Sprintf(".Body: raw content %q vs %q", trunc(raw, 40), trunc(string(gb), 40))
			}
			continue
		}
		if d := diffValues(a, b, "."+sf.Name); d != "" {
			return d
		}
	}
	return ""
}

// validateWire is the independent request validator of C09: method, path
// under the base path, declared parameters only, required ones present,
// scalars once, every text inside its type's lexical space, JSON body valid
// for the schema.
func (c *Ctx) validateWire(op *Op, r *http.Request, body []byte, rr *RefRouter, jv *JSV) []string {
	var msgs []string
	if r == nil {
		return []string{"no request seen"}
	}
	if r.Method != op.Method {
		msgs = append(msgs, fmt.Sprintf("method %s, operation declares %s", r.Method, op.Method))
	}
	// the wire form: re-parse the URL the way a server would
	u, err := url.ParseRequestURI(r.URL.RequestURI())
	if err != nil {
		return append(msgs, "request URI does not parse: "+err.Error())
	}
	tp, segs := rr.Match(op.Method, u.Path)
	if tp != op.Path {
		msgs = append(msgs, fmt.Sprintf("path %q matches template %q, not %q", u.Path, tp, op.Path))
	}
	q, err := url.ParseQuery(u.RawQuery)
	if err != nil {
		msgs = append(msgs, "query string does not parse: "+err.Error())
	}
	secQuery := map[string]bool{}
	for _, s := range c.Doc.Schemes() {
		if s.Type == "apiKey" && s.In == "query" {
			secQuery[s.Name] = true
		}
	}
	declaredQ := map[string]bool{}
	tsegs := splitSegs(op.Path)
	for _, p := range op.Spec.Params {
		s := p.Schema
		isArr := oas.Kind(s) == "array"
		es := s
		if isArr {
			es = c.Doc.Schema(s["items"])
		}
		kind := oas.Kind(es)
		if kind == "date" {
			kind = "string"
		}
		check := func(where, text string) {
			if kind == "string" {
				return
			}
			lx := classifyLex(&paramSpec{Kind: kind, Lex: Lexemes(kind)}, text)
			if lx.Class == "reject" {
				msgs = append(msgs, fmt.Sprintf("%s %q: %q is outside the lexical space of %s", where, p.Name, text, kind))
			}
		}
		switch p.In {
		case "query":
			declaredQ[p.Name] = true
			vals := q[p.Name]
			if p.Required && len(vals) == 0 {
				msgs = append(msgs, fmt.Sprintf("required query parameter %q is missing", p.Name))
			}
			if !isArr && len(vals) > 1 {
				msgs = append(msgs, fmt.Sprintf("scalar query parameter %q sent %d times", p.Name, len(vals)))
			}
			for _, v := range vals {
				check("query", v)
			}
		case "header":
			vals := r.Header.Values(p.Name)
			if p.Required && len(vals) == 0 {
				msgs = append(msgs, fmt.Sprintf("required header %q is missing", p.Name))
			}
			if !isArr && len(vals) > 1 {
				msgs = append(msgs, fmt.Sprintf("scalar header %q sent %d times", p.Name, len(vals)))
			}
			for _, v := range vals {
				check("header", v)
			}
		case "path":
			for i, ts := range tsegs {
				if ts == "{"+p.Name+"}" && i < len(segs) {
					if segs[i] == "" {
						msgs = append(msgs, fmt.Sprintf("path parameter %q is empty", p.Name))
					} else {
						check("path", segs[i])
					}
				}
			}
		}
	}
	var extra []string
	for k := range q {
		if !declaredQ[k] && !secQuery[k] {
			extra = append(extra, k)
		}
	}
	sort.Strings(extra)
	if len(extra) > 0 {
		msgs = append(msgs, fmt.Sprintf("undeclared query parameters %v", extra))
	}
	if op.Spec.Body != nil && op.Spec.Body.JSON && len(body) > 0 {
		if ct := r.Header.Get("Content-Type"); !strings.HasPrefix(ct, "application/json") {
			msgs = append(msgs, "JSON body sent with Content-Type "+strconv.Quote(ct))
		}
		dv, err := DecodeJSON(body)
		if err != nil {
			msgs = append(msgs, "request body is not one valid JSON value: "+err.Error())
		} else if errs := jv.Validate(dv, op.Spec.Body.RawSchema); len(errs) > 0 {
			msgs = append(msgs, "request body does not validate: "+errs[0])
		}
	}
	return msgs
}
