package drv

import (
	"bytes"
	"context"
	"encoding/json"
	"fmt"
	"io"
	"net/http"
	"net/url"
	"strings"

	"github.com/getkin/kin-openapi/openapi3"
	"github.com/getkin/kin-openapi/openapi3filter"
)

// kin-openapi as a SECOND OPINION (C07, C09): its verdicts never raise a
// violation on their own; agreement / disagreement with the purpose-built
// validators is counted and disagreements are sampled into the evidence.
type kinSO struct {
	doc    *openapi3.Swagger
	router *openapi3filter.Router
}

func newKin(specJSON []byte) (k *kinSO, err error) {
	defer func() {
		if p := recover(); p != nil {
			err = fmt.Errorf("kin-openapi panicked: %v", p)
		}
	}()
	doc, err := openapi3.NewSwaggerLoader().LoadSwaggerFromData(specJSON)
	if err != nil {
		return nil, err
	}
	doc.Servers = nil // the base path is stripped by the caller
	r := openapi3filter.NewRouter()
	if err := r.AddSwagger(doc); err != nil {
		return nil, err
	}
	return &kinSO{doc: doc, router: r}, nil
}

// ValidateRequest returns nil when kin-openapi accepts the request.
func (k *kinSO) ValidateRequest(r *http.Request, base string, body []byte) (err error) {
	defer func() {
		if p := recover(); p != nil {
			err = fmt.Errorf("kin-openapi panicked: %v", p)
		}
	}()
	u := *r.URL
	u.Path = strings.TrimPrefix(u.Path, base)
	u.RawPath = ""
	u.Scheme, u.Host = "", ""
	r2 := r.Clone(context.Background())
	r2.URL = &url.URL{Path: u.Path, RawQuery: u.RawQuery}
	r2.Body = io.NopCloser(bytes.NewReader(body))
	route, pathParams, err := k.router.FindRoute(r2.Method, r2.URL)
	if err != nil {
		return fmt.Errorf("route: %w", err)
	}
	in := &openapi3filter.RequestValidationInput{Request: r2, PathParams: pathParams, Route: route,
		Options: &openapi3filter.Options{AuthenticationFunc: func(context.Context, *openapi3filter.AuthenticationInput) error { return nil }}}
	return openapi3filter.ValidateRequest(context.Background(), in)
}

// ValidateComponent validates encoded JSON against components.schemas[name].
func (k *kinSO) ValidateComponent(name string, bs []byte) (err error) {
	defer func() {
		if p := recover(); p != nil {
			err = fmt.Errorf("kin-openapi panicked: %v", p)
		}
	}()
	ref := k.doc.Components.Schemas[name]
	if ref == nil || ref.Value == nil {
		return fmt.Errorf("no such component")
	}
	var v any
	if err := json.Unmarshal(bs, &v); err != nil {
		return err
	}
	return ref.Value.VisitJSON(v)
}
