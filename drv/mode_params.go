package drv

import (
	"context"
	"fmt"
	"io"
	"net/http"
	"net/url"
	"reflect"
	"sort"
	"strings"

	"verif/oas"
)

func init() { modes["params"] = modeParams }

type paramSpec struct {
	P      oas.Param
	Array  bool
	Kind   string // element kind
	Lex    []Lexeme
	Field  int
	Mapped bool
}

// supply: the texts given for one parameter in one request (nil = absent).
type supply map[string][]string

func modeParams(c *Ctx) {
	nreq := 0
	if len(c.Ops) == 0 {
		return
	}
	var got reflect.Value
	var gotErr error
	var ran bool
	api := c.NewAPI(func(op *Op) func(ctx context.Context, req reflect.Value) reflect.Value {
		return func(ctx context.Context, req reflect.Value) reflect.Value {
			ran = true
			got, gotErr = Parse(req)
			return reflect.Value{}
		}
	})
	c.installAcceptAllAuth(api)
	h := c.Handler(api)
	for _, op := range c.Ops {
		if op.Spec == nil || op.ParamsType == nil {
			continue
		}
		var ps []*paramSpec
		for _, p := range op.Spec.Params {
			if p.In != "query" && p.In != "header" {
				continue
			}
			s := p.Schema
			sp := &paramSpec{P: p}
			if oas.Kind(s) == "array" {
				sp.Array = true
				s = c.Doc.Schema(s["items"])
			}
			sp.Kind = oas.Kind(s)
			if sp.Kind == "date" {
				sp.Kind = "string"
			}
			sp.Lex = Lexemes(sp.Kind)
			if len(sp.Lex) == 0 {
				continue
			}
			if sp.Kind == "string" && !sp.Array && oas.Kind(s) == "string" && s["format"] == nil && s["enum"] == nil {
				// a parameter that is supplied with the empty string is supplied:
				// "" is a string like any other (`?q=`, an empty header line)
				sp.Lex = append(append([]Lexeme{}, sp.Lex...), Lexeme{"", "accept", ""})
			}
			group := "Query"
			if p.In == "header" {
				group = "Headers"
			}
			if gf, ok := op.ParamsType.FieldByName(group); ok {
				if idx, ok := fieldByNorm(gf.Type, p.Name); ok {
					sp.Field, sp.Mapped = idx, true
				}
			}
			ps = append(ps, sp)
		}
		if len(ps) == 0 {
			continue
		}
		path := c.Base + c.canonicalPath(op)
		canon := func() supply {
			s := supply{}
			for _, p := range ps {
				s[p.P.In+":"+p.P.Name] = []string{Canonical(p.Kind).Text}
			}
			return s
		}
		send := func(sup supply, what string) {
			q := url.Values{}
			hd := http.Header{}
			for _, p := range ps {
				vals, ok := sup[p.P.In+":"+p.P.Name]
				if !ok {
					continue
				}
				for _, v := range vals {
					if p.P.In == "query" {
						q.Add(p.P.Name, v)
					} else {
						hd.Add(p.P.Name, v)
					}
				}
			}
			ran, gotErr = false, nil
			r := NewRequest(op.Method, path, q.Encode(), hd, nil)
			c.addAllCredentials(r, "good")
			if op.Spec.Body != nil {
				r.Body = http.NoBody
			}
			nreq++
			if op.Spec.Body == nil && nreq%2 == 0 && (op.Method == "POST" || op.Method == "PUT" || op.Method == "PATCH") {
				// a form body whose fields are named like the query parameters: query
				// parameters are what the URL carries, whatever the body says
				form := url.Values{}
				for _, p := range op.Spec.Params {
					if p.In == "query" {
						form.Add(p.Name, "from-the-body")
						form.Add(p.Name, "twice")
					}
				}
				if body := form.Encode(); body != "" {
					r.Body = io.NopCloser(strings.NewReader(body))
					r.ContentLength = int64(len(body))
					r.Header.Set("Content-Type", "application/x-www-form-urlencoded")
					what += ", form body with same-named fields"
					c.Stat("form_body_requests", 1)
				}
			}
			in := fmt.Sprintf("%s %s?%s headers=%v (%s)", op.Method, path, q.Encode(), hd, what)
			func() {
				defer func() {
					if pv := recover(); pv != nil {
						c.Viol("panic", "serving a request panicked: "+firstLine(fmt.Sprint(pv)), in, nil, nil)
					}
				}()
				h.ServeHTTP(newRec(), r)
			}()
			if !ran {
				c.Stat("not_dispatched", 1)
				return
			}
			c.Stat("requests", 1)
			c.judgeParams(op, ps, sup, in)(got, gotErr)
		}
		// everything absent: completely empty query, no headers
		send(supply{}, "all parameters absent")
		// canonical
		send(canon(), "all canonical")
		// one parameter at a time: lexeme class x cardinality
		for _, p := range ps {
			key := p.P.In + ":" + p.P.Name
			s := canon()
			delete(s, key)
			send(s, "absent: "+p.P.Name)
			// only this parameter supplied
			send(supply{key: {Canonical(p.Kind).Text}}, "only "+p.P.Name)
			for _, lx := range p.Lex {
				s := canon()
				s[key] = []string{lx.Text}
				send(s, fmt.Sprintf("%s=%q (%s)", p.P.Name, lx.Text, lx.Class))
				c.Distinct("lexclass:" + p.Kind + ":" + lx.Class + ":" + p.P.In)
				// many values
				if lx.Class == "accept" {
					s2 := canon()
					s2[key] = []string{lx.Text, Canonical(p.Kind).Text}
					send(s2, fmt.Sprintf("%s twice", p.P.Name))
				}
				if p.Array {
					s3 := canon()
					s3[key] = []string{Canonical(p.Kind).Text, lx.Text, Canonical(p.Kind).Text}
					send(s3, fmt.Sprintf("%s array with %q (%s) in the middle", p.P.Name, lx.Text, lx.Class))
				}
			}
		}
		// seeded multi-fault requests
		for i := 0; i < 40 && len(ps) > 1; i++ {
			s := supply{}
			for _, p := range ps {
				switch c.Rng.Intn(4) {
				case 0:
				case 1:
					s[p.P.In+":"+p.P.Name] = []string{p.Lex[c.Rng.Intn(len(p.Lex))].Text}
				case 2:
					s[p.P.In+":"+p.P.Name] = []string{Canonical(p.Kind).Text}
				default:
					s[p.P.In+":"+p.P.Name] = []string{p.Lex[c.Rng.Intn(len(p.Lex))].Text, p.Lex[c.Rng.Intn(len(p.Lex))].Text}
				}
			}
			send(s, "seeded multi-fault")
		}
		c.Distinct("op:" + op.Key)
	}
}

// judgeParams compares the outcome of Parse() with the reference parser.
func (c *Ctx) judgeParams(op *Op, ps []*paramSpec, sup supply, in string) func(reflect.Value, error) {
	return func(got reflect.Value, gotErr error) {
		type verdict struct {
			p      *paramSpec
			class  string // accept | reject | dontcare
			absent bool
			vals   []any
		}
		var vs []verdict
		var rejectNames []string
		anyDontcare := false
		for _, p := range ps {
			texts, present := sup[p.P.In+":"+p.P.Name]
			v := verdict{p: p, class: "accept"}
			switch {
			case !present || len(texts) == 0:
				v.absent = true
				if p.P.Required {
					v.class = "reject"
				}
			case !p.Array && len(texts) > 1:
				v.class = "reject"
			default:
				for _, t := range texts {
					lx := classifyLex(p, t)
					switch lx.Class {
					case "reject":
						v.class = "reject"
					case "dontcare":
						if v.class != "reject" {
							v.class = "dontcare"
						}
					}
					v.vals = append(v.vals, lx.Value)
				}
			}
			if v.class == "reject" {
				rejectNames = append(rejectNames, p.P.Name)
			}
			if v.class == "dontcare" {
				anyDontcare = true
			}
			vs = append(vs, v)
		}
		sort.Strings(rejectNames)
		if len(rejectNames) > 0 {
			c.Stat("expect_reject", 1)
			if gotErr == nil {
				c.Viol("param-accepted", "Parse() succeeded although a parameter is missing, repeated or outside its type's lexical space", in, "error naming one of "+strings.Join(rejectNames, ","), dumpValue(got))
				return
			}
			msg := gotErr.Error()
			named := false
			for _, v := range vs {
				if v.class == "reject" && strings.Contains(msg, "'"+v.p.P.Name+"'") && strings.Contains(msg, v.p.P.In) {
					named = true
				}
			}
			if !named {
				// a don't-care parameter may legitimately be the one reported
				for _, v := range vs {
					if v.class == "dontcare" && strings.Contains(msg, "'"+v.p.P.Name+"'") {
						named = true
					}
				}
			}
			if !named {
				c.Viol("param-error-unnamed", "parse error does not name an offending parameter and its location", in, rejectNames, msg)
			}
			return
		}
		if anyDontcare {
			c.Stat("dontcare", 1)
			if gotErr != nil {
				return
			}
		} else {
			c.Stat("expect_accept", 1)
			if gotErr != nil {
				c.Viol("param-rejected", "Parse() failed although every supplied parameter is a valid lexeme of its type and every required one is present", in, "success", gotErr.Error())
				return
			}
		}
		// values
		for _, v := range vs {
			if !v.p.Mapped {
				c.Stat("unmapped", 1)
				continue
			}
			group := "Query"
			if v.p.P.In == "header" {
				group = "Headers"
			}
			f := got.FieldByName(group).Field(v.p.Field)
			if v.absent {
				if isWrapper(f.Type()) {
					if f.Field(0).Bool() {
						c.Viol("param-invented", "an absent optional parameter is set after Parse()", in, v.p.P.Name+" unset", dumpValue(f))
					}
				} else if f.Kind() == reflect.Slice && f.Len() > 0 {
					c.Viol("param-invented", "an absent optional array parameter is non-empty after Parse()", in, v.p.P.Name+" empty", dumpValue(f))
				}
				continue
			}
			if v.class != "accept" {
				continue
			}
			if isWrapper(f.Type()) {
				if !f.Field(0).Bool() {
					c.Viol("param-value", "a supplied parameter is unset after Parse()", in, fmt.Sprintf("%s=%v", v.p.P.Name, v.vals), dumpValue(f))
					continue
				}
				f = f.Field(1)
			}
			if v.p.Array {
				if f.Kind() != reflect.Slice || f.Len() != len(v.vals) {
					c.Viol("param-value", "array parameter does not hold the supplied values", in, fmt.Sprintf("%s=%v", v.p.P.Name, v.vals), dumpValue(f))
					continue
				}
				for i := range v.vals {
					if !sameTyped(unwrapValue(f.Index(i)), v.vals[i]) {
						c.Viol("param-value", "array parameter element is not the typed value of the supplied text", in, fmt.Sprintf("%s[%d]=%v", v.p.P.Name, i, v.vals[i]), dumpValue(f))
						break
					}
				}
				continue
			}
			if !sameTyped(unwrapValue(f), v.vals[0]) {
				c.Viol("param-value", "parameter value is not the typed value of the supplied text", in, fmt.Sprintf("%s=%v", v.p.P.Name, v.vals[0]), dumpValue(f))
			}
		}
	}
}

func classifyLex(p *paramSpec, text string) Lexeme {
	for _, lx := range p.Lex {
		if lx.Text == text {
			return lx
		}
	}
	return *classifyText(p.Kind, text)
}
