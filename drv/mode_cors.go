package drv

import (
	"context"
	"fmt"
	"net/http"
	"reflect"
	"sort"
	"strings"
)

func init() { modes["cors"] = modeCors }

// modeCors (C17): for every declared path, an OPTIONS request; the arguments
// the CORSHandler constructor receives are compared with the reference sets.
func modeCors(c *Ctx) {
	if len(c.Ops) == 0 {
		return
	}
	rr := c.refRouter()
	schemes := c.Doc.Schemes()
	// reference per path template
	type ref struct {
		methods   map[string]bool
		headers   map[string]bool
		options   bool
		ambiguous bool
	}
	refs := map[string]*ref{}
	for _, op := range c.Doc.Operations() {
		r := refs[op.Path]
		if r == nil {
			r = &ref{methods: map[string]bool{}, headers: map[string]bool{}}
			refs[op.Path] = r
		}
		r.methods[op.Method] = true
		if op.Method == "OPTIONS" {
			r.options = true
		}
		for _, p := range op.Params {
			if p.In == "header" {
				r.headers[http.CanonicalHeaderKey(p.Name)] = true
			}
		}
		for _, alt := range c.Doc.EffectiveSecurity(op) {
			if len(alt) > 1 {
				r.ambiguous = true // AND alternatives: recorded C11 finding, not judged here
			}
			for _, k := range alt {
				s := schemes[k]
				switch {
				case s.Type == "http" && strings.EqualFold(s.Scheme, "bearer"):
					r.headers["Authorization"] = true
				case s.Type == "apiKey" && s.In == "header":
					r.headers[http.CanonicalHeaderKey(s.Name)] = true
				}
			}
		}
	}
	var opRan string
	var corsCalls int
	var gotM, gotH []string
	var corsServed int
	api := c.NewAPI(func(op *Op) func(ctx context.Context, req reflect.Value) reflect.Value {
		return func(ctx context.Context, req reflect.Value) reflect.Value {
			opRan = op.Key
			return reflect.Value{}
		}
	})
	c.installAcceptAllAuth(api)
	cf := api.Elem().FieldByName("CORSHandler")
	hasField := cf.IsValid()
	install := func(on bool) {
		if !hasField {
			return
		}
		if !on {
			cf.Set(reflect.Zero(cf.Type()))
			return
		}
		cf.Set(reflect.MakeFunc(cf.Type(), func(args []reflect.Value) []reflect.Value {
			corsCalls++
			ms, hs := args[0].Interface().([]string), args[1].Interface().([]string)
			gotM = append([]string{}, ms...)
			gotH = append([]string{}, hs...)
			// the arguments are this call's own: a handler may filter or rewrite
			// them in place without any later preflight noticing
			for i := range ms {
				ms[i] = "scribbled"
			}
			for i := range hs {
				hs[i] = strings.ToLower(hs[i])
			}
			return []reflect.Value{reflect.ValueOf(http.Handler(http.HandlerFunc(func(w http.ResponseWriter, r *http.Request) {
				corsServed++
				w.WriteHeader(204)
			})))}
		}))
	}
	// a session middleware: answers 401 itself unless the request carries
	// X-Session (a browser's preflight never does). Preflights are not routed
	// operations, so the CORS handler must answer them whatever the stack does.
	mwHits := 0
	c.SetField(api, "Middlewares", []func(http.Handler) http.Handler{func(next http.Handler) http.Handler {
		return http.HandlerFunc(func(w http.ResponseWriter, r *http.Request) {
			mwHits++
			if r.Header.Get("X-Session") == "" {
				w.WriteHeader(401)
				return
			}
			next.ServeHTTP(w, r)
		})
	}})
	h := c.Handler(api)
	nf := 0
	c.SetField(api, "NotFoundHandler", http.Handler(http.HandlerFunc(func(w http.ResponseWriter, r *http.Request) { nf++; w.WriteHeader(404) })))
	for _, t := range rr.Templates {
		r := refs[t.Path]
		// a concrete path for the template whose OPTIONS match is this template (pseudo-ops take part in matching)
		path := c.Base + concreteFor(t.Segs)
		rrAll := &RefRouter{Base: rr.Base}
		for _, x := range rr.Templates {
			rrAll.Templates = append(rrAll.Templates, RefTemplate{Path: x.Path, Segs: x.Segs, Methods: map[string]bool{"OPTIONS": true}})
		}
		if m, _ := rrAll.Match("OPTIONS", path); m != t.Path {
			c.Stat("shadowed_by_more_literal_template", 1)
			continue
		}
		for _, installed := range []bool{true, true, false} {
			// (the installed case runs twice: the second preflight of a path must be
			// answered like the first)
			// with CORS disabled a CORSHandler field (should the package have
			// one at all) is installed as well: it must stay without effect
			install(installed)
			opRan, corsCalls, corsServed, nf, mwHits = "", 0, 0, 0, 0
			gotM, gotH = nil, nil
			req := NewRequest("OPTIONS", path, "", nil, nil)
			c.addAllCredentials(req, "good")
			if other, _ := rr.Match("OPTIONS", path); other != "" {
				req.Header.Set("X-Session", "1") // a call of a declared OPTIONS operation, not a preflight
			}
			in := fmt.Sprintf("OPTIONS %s (template %s, cors enabled=%v, handler installed=%v)", path, t.Path, c.Case.Cors, installed)
			func() {
				defer func() {
					if p := recover(); p != nil {
						c.Viol("panic", "serving a request panicked: "+firstLine(fmt.Sprint(p)), in, nil, nil)
					}
				}()
				h.ServeHTTP(newRec(), req)
			}()
			c.Stat("preflights", 1)
			c.Distinct(fmt.Sprintf("%s|%v|%v", t.Path, c.Case.Cors, installed))
			switch {
			case r.options:
				if opRan != "OPTIONS "+t.Path || corsCalls > 0 {
					c.Viol("options-shadowed", "a declared OPTIONS operation did not handle the OPTIONS request", in, "OPTIONS "+t.Path, fmt.Sprintf("op=%q cors calls=%d notfound=%d", opRan, corsCalls, nf))
				}
			case !c.Case.Cors || !installed || !hasField:
				// no pseudo-operation exists: the request is matched against the declared
				// operations only (another, less literal template may declare OPTIONS)
				if other, _ := rr.Match("OPTIONS", path); other != "" {
					if opRan != "OPTIONS "+other || corsCalls > 0 {
						c.Viol("preflight-not-notfound", "OPTIONS without CORS handler did not go to the declared OPTIONS operation that matches the path", in, "OPTIONS "+other, fmt.Sprintf("op=%q cors calls=%d notfound=%d", opRan, corsCalls, nf))
					}
				} else if opRan != "" || corsCalls > 0 || nf != 1 {
					c.Viol("preflight-not-notfound", "OPTIONS to a path without OPTIONS operation and without CORS handler was not 'not found'", in, "not found", fmt.Sprintf("op=%q cors calls=%d notfound=%d", opRan, corsCalls, nf))
				}
			default:
				c.Stat("cors_answers", 1)
				if corsCalls != 1 || corsServed != 1 || opRan != "" || nf != 0 {
					c.Viol("preflight-unanswered", "OPTIONS to a declared path was not answered by the CORS handler", in, "one CORSHandler construction, served once", fmt.Sprintf("op=%q cors calls=%d served=%d notfound=%d middleware hits=%d", opRan, corsCalls, corsServed, nf, mwHits))
					continue
				}
				if mwHits != 0 {
					c.Viol("preflight-through-middlewares", "a preflight answered by the CORS handler passed through the user middlewares", in, 0, mwHits)
				}
				wantM, wantH := setList(r.methods), setList(r.headers)
				gm, gh := sortedCopy(gotM), sortedCopy(gotH)
				if strings.Join(gm, ",") != strings.Join(wantM, ",") {
					c.Viol("cors-methods", "CORS handler got a method set different from the path's declared methods", in, wantM, gotM)
				}
				if r.ambiguous {
					c.Stat("ambiguous_security", 1)
				} else if strings.Join(gh, ",") != strings.Join(wantH, ",") {
					c.Viol("cors-headers", "CORS handler got a header set different from the canonicalised, de-duplicated header parameters plus security headers", in, wantH, gotH)
				}
				if hasDup(gotM) || hasDup(gotH) {
					c.Viol("cors-duplicates", "CORS handler arguments contain duplicates", in, "no duplicates", fmt.Sprint(gotM, gotH))
				}
				c.Sample(map[string]any{"path": t.Path, "methods": gotM, "headers": gotH})
			}
		}
	}
}

func concreteFor(segs []string) string {
	var b strings.Builder
	for _, s := range segs {
		b.WriteByte('/')
		if isVar(s) {
			b.WriteString("zz9")
		} else {
			b.WriteString(s)
		}
	}
	return b.String()
}

func setList(m map[string]bool) []string {
	out := make([]string, 0, len(m))
	for k := range m {
		out = append(out, k)
	}
	sort.Strings(out)
	return out
}

func sortedCopy(s []string) []string {
	o := append([]string{}, s...)
	sort.Strings(o)
	return o
}

func hasDup(s []string) bool {
	seen := map[string]bool{}
	for _, x := range s {
		if seen[x] {
			return true
		}
		seen[x] = true
	}
	return false
}
