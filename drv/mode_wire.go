package drv

import (
	"bytes"
	"context"
	"encoding/json"
	"fmt"
	"hash/fnv"
	"io"
	"math/rand"
	"net/http"
	"net/url"
	"os"
	"reflect"
	"regexp"
	"sort"
	"strconv"
	"strings"
	"time"

	"verif/oas"
)

func init() { modes["wire"] = modeWire }

var errParamRe = regexp.MustCompile(`(query|header|path) parameter '([^']+)'`)

// modeWire (C18): a transcript of wire-level behaviour on inputs that depend
// only on the MEANING of the spec (dereferenced view, names, order-insensitive)
// and on the pair's seed, so that a spec and its $ref/inline rewrites receive
// identical inputs. vcheck compares the transcripts of the variants offline.
func modeWire(c *Ctx) {
	out, err := os.Create("verif_wire.jsonl")
	if err != nil {
		c.emit(event{"t": "fatal", "msg": err.Error()})
		return
	}
	defer out.Close()
	pair, _ := c.Case.Aux["pair"].(string)
	hsh := fnv.New64a()
	hsh.Write([]byte(pair))
	seed := int64(hsh.Sum64()>>1) ^ c.Case.Seed
	rec := func(key string, outcome any) {
		bs, _ := json.Marshal(map[string]any{"k": key, "o": outcome})
		out.Write(append(bs, '\n'))
		c.Stat("records", 1)
	}
	if len(c.Ops) == 0 {
		return
	}
	var cur struct {
		ran    string
		params reflect.Value
		err    error
	}
	var next reflect.Value
	api := c.NewAPI(func(op *Op) func(ctx context.Context, req reflect.Value) reflect.Value {
		return func(ctx context.Context, req reflect.Value) reflect.Value {
			cur.ran = op.Key
			cur.params, cur.err = Parse(req)
			return next
		}
	})
	c.installAcceptAllAuth(api)
	h := c.Handler(api)
	ops := append([]*Op{}, c.Ops...)
	sort.Slice(ops, func(i, j int) bool { return ops[i].Key < ops[j].Key })
	jv := &JSV{Doc: c.Doc}
	for _, op := range ops {
		if op.Spec == nil {
			continue
		}
		rng := rand.New(rand.NewSource(seed + int64(len(op.Key))*7919 + int64(op.Key[len(op.Key)-1])))
		params := append([]oas.Param{}, op.Spec.Params...)
		sort.Slice(params, func(i, j int) bool { return params[i].In+params[i].Name < params[j].In+params[j].Name })
		dumpParams := func() any {
			if cur.ran == "" {
				return "handler-not-run"
			}
			if !cur.params.IsValid() {
				return "no-params"
			}
			if cur.err != nil {
				if m := errParamRe.FindStringSubmatch(cur.err.Error()); m != nil {
					return "error:" + m[1] + ":" + m[2]
				}
				if strings.Contains(cur.err.Error(), "body") {
					return "error:body"
				}
				return "error:other"
			}
			res := map[string]string{}
			for _, p := range params {
				group := map[string]string{"query": "Query", "header": "Headers", "path": "Path"}[p.In]
				gf := cur.params.FieldByName(group)
				if !gf.IsValid() {
					continue
				}
				idx, ok := fieldByNorm(gf.Type(), p.Name)
				if !ok {
					res[p.In+":"+p.Name] = "<unmapped>"
					continue
				}
				res[p.In+":"+p.Name] = canonValue(gf.Field(idx))
			}
			return res
		}
		send := func(key string, path, rawq string, hd http.Header, body []byte) *recWriter {
			cur.ran, cur.err = "", nil
			cur.params = reflect.Value{}
			r := NewRequest(op.Method, path, rawq, hd, body)
			c.addAllCredentials(r, "good")
			if body != nil {
				r.Header.Set("Content-Type", "application/json")
			}
			w := newRec()
			func() {
				defer func() {
					if p := recover(); p != nil {
						cur.ran = "PANIC"
					}
				}()
				h.ServeHTTP(w, r)
			}()
			return w
		}
		// ---- a. parameters
		type sup struct {
			q  url.Values
			hd http.Header
			ps map[string]string
		}
		canon := func() sup {
			s := sup{q: url.Values{}, hd: http.Header{}, ps: map[string]string{}}
			for _, p := range params {
				k := kindOfParam(c, p.Schema)
				switch p.In {
				case "query":
					s.q.Set(p.Name, Canonical(k).Text)
				case "header":
					s.hd.Set(p.Name, Canonical(k).Text)
				case "path":
					s.ps[p.Name] = Canonical(k).Text
				}
			}
			return s
		}
		pathFor := func(ps map[string]string) string {
			segs := splitSegs(op.Path)
			over := map[int]string{}
			for i, sg := range segs {
				if isVar(sg) {
					over[i] = ps[sg[1:len(sg)-1]]
				}
			}
			return c.Base + concrete(segs, over)
		}
		next = reflect.Value{}
		var validBody []byte
		if op.Spec.Body != nil && op.Spec.Body.JSON {
			dg := &DocGen{Doc: c.Doc, Rng: rand.New(rand.NewSource(seed + 5))}
			validBody = EncodeDoc(dg.Valid(op.Spec.Body.RawSchema, 0), 0)
		}
		s0 := canon()
		send("canon", pathFor(s0.ps), s0.q.Encode(), s0.hd, validBody)
		rec(op.Key+"|params|canonical", map[string]any{"dispatched": cur.ran, "parsed": dumpParams()})
		for _, p := range params {
			k := kindOfParam(c, p.Schema)
			var texts []string
			for _, lx := range Lexemes(k) {
				if p.In == "path" && (lx.Text == "" || strings.Contains(lx.Text, "/")) {
					continue
				}
				texts = append(texts, lx.Text)
			}
			variants := map[string]func(s *sup){"absent": func(s *sup) {
				switch p.In {
				case "query":
					s.q.Del(p.Name)
				case "header":
					s.hd.Del(p.Name)
				}
			}, "twice": func(s *sup) {
				switch p.In {
				case "query":
					s.q.Add(p.Name, Canonical(k).Text)
				case "header":
					s.hd.Add(p.Name, Canonical(k).Text)
				}
			}}
			if oasKind(p.Schema) == "array" && p.In != "path" {
				// several occurrences, some of them empty
				cn := Canonical(k).Text
				for name, vals := range map[string][]string{"arr-empty-first": {"", cn}, "arr-empty-mid": {cn, "", cn}, "arr-empty-last": {cn, ""}, "arr-empty-both-ends": {"", cn, ""}, "arr-three": {cn, cn, cn}, "arr-only-empties": {"", ""},
					// one occurrence holding a comma-separated list (what explode: false would mean)
					"arr-comma-joined": {cn + "," + cn + "," + cn}, "arr-comma-and-repeat": {cn + "," + cn, cn}} {
					vals := vals
					variants[name] = func(s *sup) {
						switch p.In {
						case "query":
							s.q[p.Name] = vals
						case "header":
							s.hd[http.CanonicalHeaderKey(p.Name)] = vals
						}
					}
				}
			}
			for i, t := range texts {
				t := t
				variants[fmt.Sprintf("lex%02d", i)] = func(s *sup) {
					switch p.In {
					case "query":
						s.q.Set(p.Name, t)
					case "header":
						s.hd.Set(p.Name, t)
					case "path":
						s.ps[p.Name] = t
					}
				}
			}
			for _, vn := range sortedKeys(variants) {
				if p.In == "path" && (vn == "absent" || vn == "twice") {
					continue
				}
				s := canon()
				variants[vn](&s)
				send(vn, pathFor(s.ps), s.q.Encode(), s.hd, validBody)
				rec(op.Key+"|params|"+p.In+":"+p.Name+"|"+vn, map[string]any{"dispatched": cur.ran, "parsed": dumpParams()})
			}
		}
		// ---- b. JSON request bodies: echo through the parsed value
		if op.Spec.Body != nil && op.Spec.Body.JSON {
			dg := &DocGen{Doc: c.Doc, Rng: rng, WithNull: true}
			for i := 0; i < 24; i++ {
				doc := dg.Valid(op.Spec.Body.RawSchema, 0)
				text := EncodeDoc(doc, 0)
				if dv, err := DecodeJSON(text); err != nil || len(jv.Validate(dv, op.Spec.Body.RawSchema)) > 0 {
					continue
				}
				docs := [][]byte{text}
				if i == 0 {
					// documents that several oneOf alternatives accept (invalid for the schema,
					// but both forms of the spec must treat them alike)
					for _, u := range dg.Unions(op.Spec.Body.RawSchema) {
						docs = append(docs, EncodeDoc(u, 0))
					}
				}
				if i%3 == 0 {
					for _, fm := range dg.Faults(doc, op.Spec.Body.RawSchema) {
						docs = append(docs, EncodeDoc(fm.Doc, 0))
					}
				}
				for di, dt := range docs {
					s := canon()
					send("body", pathFor(s.ps), s.q.Encode(), s.hd, dt)
					o := map[string]any{"dispatched": cur.ran, "accepted": cur.err == nil && cur.ran != ""}
					if cur.err != nil {
						o["_error_text"] = cur.err.Error() // informational, not compared
					}
					if cur.err == nil && cur.params.IsValid() {
						if bf := cur.params.FieldByName("Body"); bf.IsValid() {
							if re, err := marshalValue(bf); err == nil {
								o["echo"] = canonJSON(re)
							} else {
								o["echo"] = "marshal-error"
							}
						}
					}
					rec(fmt.Sprintf("%s|body|%02d.%02d|%s", op.Key, i, di, trunc(string(dt), 200)), o)
				}
			}
		}
		// ---- c. responses: described by (status, header texts, body document)
		impls := uniqueImpls(op)
		byStatus := map[string]*respImpl{}
		for _, ri := range impls {
			zero := reflect.New(ri.T).Elem()
			fillReaders(zero)
			isDef := hasCode(ri.T)
			if isDef {
				zero.FieldByName("Code").SetInt(599)
			}
			next = zero
			s := canon()
			w := send("probe", pathFor(s.ps), s.q.Encode(), s.hd, validBody)
			if dr := docResponse(op, w.Status, isDef); dr != nil {
				ri.Doc = dr
				byStatus[dr.Status] = ri
			}
		}
		resps := append([]oas.Response{}, op.Spec.Responses...)
		sort.Slice(resps, func(i, j int) bool { return resps[i].Status < resps[j].Status })
		for _, dr := range resps {
			ri := byStatus[dr.Status]
			if ri == nil {
				rec(op.Key+"|response|"+dr.Status, "no-implementer")
				continue
			}
			dg := &DocGen{Doc: c.Doc, Rng: rand.New(rand.NewSource(seed + int64(len(dr.Status))*31 + int64(dr.Status[0])))}
			for i := 0; i < 11; i++ {
				v := reflect.New(ri.T).Elem()
				desc := map[string]any{}
				if i == 10 {
					// the zero value of the response struct: nil slices and
					// maps, unset optionals - what a handler returns when it
					// has nothing to report
					if !dr.JSON || oasKind(dr.Schema) != "object" {
						break
					}
					if f := v.FieldByName("Code"); f.IsValid() && f.Kind() == reflect.Int {
						f.SetInt(500)
					}
					next = v
					s := canon()
					w := send("resp", pathFor(s.ps), s.q.Encode(), s.hd, validBody)
					rec(fmt.Sprintf("%s|response|%s|zero-value", op.Key, dr.Status),
						map[string]any{"status": w.Status, "headers": headerMap(w.Frozen), "body": canonJSON(w.Body.Bytes())})
					break
				}
				if f := v.FieldByName("Code"); f.IsValid() && f.Kind() == reflect.Int {
					code := []int{400, 500, 418, 503}[i%4]
					f.SetInt(int64(code))
					desc["code"] = code
				}
				if dr.JSON {
					doc := dg.Valid(dr.Schema, 0)
					text := EncodeDoc(doc, 0)
					desc["body"] = string(text)
					if bf := v.FieldByName("Body"); bf.IsValid() && bf.CanAddr() {
						if err := json.Unmarshal(text, bf.Addr().Interface()); err != nil {
							desc["body_decode_error"] = true
						}
					}
				} else if hasReader(v) {
					resetReaders(v, fmt.Sprintf("raw-%d", i))
					desc["body"] = fmt.Sprintf("raw-%d", i)
				}
				if hf := v.FieldByName("Headers"); hf.IsValid() {
					hdrs := append([]oas.Header{}, dr.Headers...)
					sort.Slice(hdrs, func(a, b int) bool { return hdrs[a].Name < hdrs[b].Name })
					for hi, hd := range hdrs {
						idx, ok := fieldByNorm(hf.Type(), hd.Name)
						if !ok {
							continue
						}
						set := hd.Required || (i+hi)%3 != 0
						desc["h:"+hd.Name] = set
						if set {
							setHeaderField(hf.Field(idx), hd.Schema, i+hi, c.Doc)
						}
					}
				}
				next = v
				s := canon()
				w := send("resp", pathFor(s.ps), s.q.Encode(), s.hd, validBody)
				o := map[string]any{"status": w.Status, "headers": headerMap(w.Frozen)}
				if dr.JSON {
					o["body"] = canonJSON(w.Body.Bytes())
				} else {
					o["body"] = w.Body.String()
				}
				dk, _ := json.Marshal(desc)
				rec(fmt.Sprintf("%s|response|%s|%02d|%s", op.Key, dr.Status, i, trunc(string(dk), 300)), o)
			}
		}
		next = reflect.Value{}
		c.Distinct("op:" + op.Key)
	}
}

// setHeaderField sets a response-header field to the n-th accept lexeme of its type.
func setHeaderField(f reflect.Value, s oas.M, n int, doc *oas.Doc) {
	for isWrapper(f.Type()) {
		f.Field(0).SetBool(true)
		f = f.Field(1)
	}
	kind := oasKind(s)
	if kind == "array" {
		es := doc.Schema(s["items"])
		sl := reflect.MakeSlice(f.Type(), 2, 2)
		setHeaderField(sl.Index(0), es, n, doc)
		setHeaderField(sl.Index(1), es, n+1, doc)
		f.Set(sl)
		return
	}
	var acc []Lexeme
	for _, lx := range Lexemes(kind) {
		if lx.Class == "accept" {
			acc = append(acc, lx)
		}
	}
	if len(acc) == 0 {
		return
	}
	lx := acc[n%len(acc)]
	if f.Type() != timeType && f.Kind() == reflect.Struct && f.Type().ConvertibleTo(timeType) {
		if t, ok := lx.Value.(time.Time); ok {
			f.Set(reflect.ValueOf(t).Convert(f.Type()))
		}
		return
	}
	switch f.Kind() {
	case reflect.String:
		f.SetString(headerSafe(lx.Text))
	case reflect.Int, reflect.Int32, reflect.Int64:
		z, _ := strconv.ParseInt(lx.Text, 10, 64)
		if f.Kind() == reflect.Int32 {
			z = int64(int32(z))
		}
		f.SetInt(z)
	case reflect.Float32, reflect.Float64:
		x, _ := strconv.ParseFloat(lx.Text, 64)
		f.SetFloat(x)
	case reflect.Bool:
		f.SetBool(lx.Text == "true")
	case reflect.Struct:
		if t, ok := lx.Value.(time.Time); ok && f.Type() == timeType {
			f.Set(reflect.ValueOf(t))
		}
	}
}

func headerMap(h http.Header) map[string][]string {
	o := map[string][]string{}
	for k, v := range h {
		o[k] = v
	}
	return o
}

func canonJSON(bs []byte) any {
	v, err := DecodeJSON(bytes.TrimSpace(bs))
	if err != nil {
		return "INVALID:" + trunc(string(bs), 80)
	}
	return canonNumbers(v)
}

func canonNumbers(v any) any {
	switch t := v.(type) {
	case map[string]any:
		for k, x := range t {
			t[k] = canonNumbers(x)
		}
		return t
	case []any:
		for i, x := range t {
			t[i] = canonNumbers(x)
		}
		return t
	case json.Number:
		if f, err := strconv.ParseFloat(string(t), 64); err == nil {
			return strconv.FormatFloat(f, 'g', -1, 64)
		}
		return string(t)
	}
	return v
}

// canonValue renders a parsed parameter value independently of its Go type name.
func canonValue(v reflect.Value) string {
	if isWrapper(v.Type()) {
		if !v.Field(0).Bool() {
			return "<unset>"
		}
		return canonValue(v.Field(1))
	}
	if v.Type() != timeType && v.Kind() == reflect.Struct && v.Type().ConvertibleTo(timeType) {
		v = v.Convert(timeType)
	}
	if v.Type() == timeType {
		return v.Interface().(time.Time).UTC().Format(time.RFC3339Nano)
	}
	switch v.Kind() {
	case reflect.Slice:
		var parts []string
		for i := 0; i < v.Len(); i++ {
			parts = append(parts, canonValue(v.Index(i)))
		}
		return "[" + strings.Join(parts, ",") + "]"
	case reflect.String:
		return strconv.Quote(v.String())
	case reflect.Int, reflect.Int32, reflect.Int64:
		return strconv.FormatInt(v.Int(), 10)
	case reflect.Float32, reflect.Float64:
		return strconv.FormatFloat(v.Float(), 'g', -1, 64)
	case reflect.Bool:
		return strconv.FormatBool(v.Bool())
	}
	return fmt.Sprint(v.Interface())
}

var _ = io.EOF
