package drv

import (
	"bytes"
	"encoding/json"
	"fmt"
	"math/rand"
	"sort"
	"strings"
	"time"
	"unicode/utf16"
	"unicode/utf8"

	"verif/oas"
)

// docgen: an independent generator of JSON documents FROM a schema (C08):
// all optional subsets, null where nullable, extra keys where
// additionalProperties is declared, key-order permutations, whitespace
// variants, and single-fault mutants (drop one required key / swap one
// declared property's value for a non-null value of another JSON type).

// jdoc is an ordered JSON tree so that key order can be controlled.
type jobj struct {
	keys []string
	vals map[string]any
}

type DocGen struct {
	Doc *oas.Doc
	Rng *rand.Rand
	// WithNull adds the fault kind "null" (a present declared property set to
	// null, whatever its nullability): C08 does not judge it, C18 compares
	// how the two forms of a spec treat it.
	WithNull bool
}

type Fault struct {
	Kind     string // "drop-required" | "wrong-type"
	Property string
	Path     string
}

func (d *DocGen) num(kind string) any {
	switch kind {
	case "int32":
		return json.Number(fmt.Sprint([]int64{0, 7, -1, 2147483647, -2147483648}[d.Rng.Intn(5)]))
	case "integer", "int64":
		return json.Number([]string{"0", "7", "-1", "9223372036854775807", "-9223372036854775808", "9007199254740993", "42"}[d.Rng.Intn(7)])
	case "float":
		return json.Number([]string{"0", "1.5", "-2.25", "100", "3.4028235e+38", "0.1"}[d.Rng.Intn(6)])
	}
	return json.Number([]string{"0", "1.5", "-2.25", "1e308", "12", "5e-324", "0.1", "-0"}[d.Rng.Intn(8)])
}

// Valid builds a document valid for the schema. optMask chooses which optional
// properties are present at the top object (-1 = random everywhere).
func (d *DocGen) Valid(schemaNode any, depth int) any {
	s := d.Doc.Schema(schemaNode)
	if s == nil {
		return d.anyValue(depth)
	}
	if oas.IsNullable(s) && d.Rng.Intn(4) == 0 {
		return nil
	}
	if _, ok := s["allOf"]; ok {
		ov, err := d.Doc.ObjectView(s)
		if err != nil {
			return &jobj{vals: map[string]any{}}
		}
		return d.object(ov, depth)
	}
	if members, ok := s["oneOf"].([]any); ok {
		i := d.Rng.Intn(len(members))
		v := d.Valid(members[i], depth+1)
		if disc, ok := s["discriminator"].(map[string]any); ok {
			if o, ok := v.(*jobj); ok {
				prop, _ := disc["propertyName"].(string)
				_, chain := d.Doc.Deref(members[i])
				if len(chain) > 0 {
					keys := []string{chain[0]}
					if mp, ok := disc["mapping"].(map[string]any); ok {
						for k, t := range mp {
							if ts, _ := t.(string); strings.HasSuffix(ts, "/"+chain[0]) {
								keys = append(keys, k)
							}
						}
					}
					sort.Strings(keys)
					o.set(prop, keys[d.Rng.Intn(len(keys))])
				}
			}
		}
		return v
	}
	switch oas.Kind(s) {
	case "string":
		if f, _ := s["format"].(string); f == "date" {
			return fmt.Sprintf("%04d-%02d-%02d", 1+d.Rng.Intn(9999), 1+d.Rng.Intn(12), 1+d.Rng.Intn(28))
		}
		return boundaryStrings[d.Rng.Intn(len(boundaryStrings))]
	case "date-time":
		return []string{"2020-01-02T03:04:05Z", "2020-01-02T03:04:05.123+02:00", "1999-12-31T23:59:59-11:30", "2024-02-29T00:00:00.000000001Z"}[d.Rng.Intn(4)]
	case "boolean":
		return d.Rng.Intn(2) == 0
	case "integer", "int32", "int64", "number", "float":
		return d.num(oas.Kind(s))
	case "array":
		n := d.Rng.Intn(4)
		if depth > 3 && n > 1 {
			n = 1
		}
		l := make([]any, 0, n)
		for i := 0; i < n; i++ {
			l = append(l, d.Valid(s["items"], depth+1))
		}
		return l
	case "object":
		ov, _ := d.Doc.ObjectView(s)
		return d.object(ov, depth)
	}
	return d.anyValue(depth)
}

func (o *jobj) set(k string, v any) {
	if _, ok := o.vals[k]; !ok {
		o.keys = append(o.keys, k)
	}
	o.vals[k] = v
}

func (o *jobj) del(k string) {
	delete(o.vals, k)
	for i, x := range o.keys {
		if x == k {
			o.keys = append(o.keys[:i], o.keys[i+1:]...)
			return
		}
	}
}

func (d *DocGen) object(ov oas.ObjectView, depth int) *jobj {
	o := &jobj{vals: map[string]any{}}
	for _, k := range ov.Order {
		if !ov.Required[k] && d.Rng.Intn(2) == 0 {
			continue
		}
		o.set(k, d.Valid(ov.Props[k], depth+1))
	}
	if ov.HasAddl {
		n := d.Rng.Intn(3)
		for i := 0; i < n; i++ {
			o.set(fmt.Sprintf("extra_%d", i), d.Valid(ov.Addl, depth+1))
		}
	}
	// key order permutation
	d.Rng.Shuffle(len(o.keys), func(i, j int) { o.keys[i], o.keys[j] = o.keys[j], o.keys[i] })
	return o
}

func (d *DocGen) anyValue(depth int) any {
	switch d.Rng.Intn(6) {
	case 0:
		return nil
	case 1:
		return json.Number("3")
	case 2:
		return "s"
	case 3:
		return true
	case 4:
		return []any{json.Number("1"), "x"}
	}
	o := &jobj{vals: map[string]any{}}
	o.set("k", "v")
	return o
}

// Encode writes the ordered tree as JSON text; ws selects a whitespace style.
func EncodeDoc(v any, ws int) []byte {
	var b bytes.Buffer
	encodeDoc(&b, v, ws)
	return b.Bytes()
}

// escapeAll writes a JSON string in which every character is a \uXXXX escape
// (surrogate pairs beyond the BMP) except '/', written as \/: valid JSON that
// Go's own encoder never produces.
func escapeAll(s string) []byte {
	var b bytes.Buffer
	b.WriteByte('"')
	for _, r := range s {
		switch {
		case r == '/':
			b.WriteString(`\/`)
		case r == utf8.RuneError:
			b.WriteString(`\ufffd`)
		case r > 0xFFFF:
			r1, r2 := utf16.EncodeRune(r)
			fmt.Fprintf(&b, `\u%04x\u%04x`, r1, r2)
		default:
			fmt.Fprintf(&b, `\u%04X`, r)
		}
	}
	b.WriteByte('"')
	return b.Bytes()
}

func encodeDoc(b *bytes.Buffer, v any, ws int) {
	sp := ""
	if ws == 1 {
		sp = " "
	} else if ws == 2 {
		sp = "\n\t "
	}
	if str, ok := v.(string); ok && ws == 3 {
		b.Write(escapeAll(str))
		return
	}
	switch t := v.(type) {
	case nil:
		b.WriteString("null")
	case *jobj:
		b.WriteString("{" + sp)
		for i, k := range t.keys {
			if i > 0 {
				b.WriteString("," + sp)
			}
			kb, _ := json.Marshal(k)
			if ws == 3 {
				kb = escapeAll(k)
			}
			b.Write(kb)
			b.WriteString(sp + ":" + sp)
			encodeDoc(b, t.vals[k], ws)
		}
		b.WriteString(sp + "}")
	case []any:
		b.WriteString("[" + sp)
		for i, e := range t {
			if i > 0 {
				b.WriteString("," + sp)
			}
			encodeDoc(b, e, ws)
		}
		b.WriteString(sp + "]")
	case json.Number:
		b.WriteString(string(t))
	default:
		bs, _ := json.Marshal(t)
		b.Write(bs)
	}
}

// cloneDoc deep-copies an ordered tree.
func cloneDoc(v any) any {
	switch t := v.(type) {
	case *jobj:
		o := &jobj{keys: append([]string{}, t.keys...), vals: map[string]any{}}
		for k, x := range t.vals {
			o.vals[k] = cloneDoc(x)
		}
		return o
	case []any:
		l := make([]any, len(t))
		for i, x := range t {
			l[i] = cloneDoc(x)
		}
		return l
	}
	return v
}

// wrongTyped returns a non-null value of another JSON type than the schema allows ("" kind => none possible).
func (d *DocGen) wrongTyped(s oas.M) (any, bool) {
	if s == nil {
		return nil, false
	}
	if _, ok := s["oneOf"]; ok {
		return nil, false
	}
	obj := &jobj{vals: map[string]any{}}
	obj.set("zzz", "q")
	switch oas.Kind(s) {
	case "any", "none":
		return nil, false
	case "string", "date-time":
		return []any{json.Number("12"), true, obj, []any{"a"}}[d.Rng.Intn(4)], true
	case "integer", "int32", "int64":
		return []any{"12", true, obj, []any{json.Number("1")}, json.Number("1.5")}[d.Rng.Intn(5)], true
	case "number", "float":
		return []any{"1.5", false, obj, []any{json.Number("1")}}[d.Rng.Intn(4)], true
	case "boolean":
		return []any{"true", json.Number("1"), obj, []any{true}}[d.Rng.Intn(4)], true
	case "array":
		return []any{"[]", json.Number("0"), obj, true}[d.Rng.Intn(4)], true
	case "object", "allOf":
		return []any{"{}", json.Number("0"), []any{"a"}, true}[d.Rng.Intn(4)], true
	}
	return nil, false
}

// Faults enumerates single-fault mutants of a valid document: every required
// key dropped once, every present declared property given a wrong-typed value
// once, at every depth reachable without crossing a oneOf without discriminator.
func (d *DocGen) Faults(doc any, schemaNode any) []struct {
	Doc   any
	Fault Fault
} {
	var out []struct {
		Doc   any
		Fault Fault
	}
	type site struct {
		path []any // keys (string) / indexes (int)
		kind string
		prop string
		s    oas.M
	}
	var sites []site
	var walk func(v any, schemaNode any, path []any, depth int)
	walk = func(v any, schemaNode any, path []any, depth int) {
		s := d.Doc.Schema(schemaNode)
		if s == nil || v == nil || depth > 12 {
			return
		}
		if members, ok := s["oneOf"].([]any); ok {
			disc, _ := s["discriminator"].(map[string]any)
			o, isObj := v.(*jobj)
			if disc == nil || !isObj {
				return
			}
			prop, _ := disc["propertyName"].(string)
			key, _ := o.vals[prop].(string)
			target := key
			if mp, ok := disc["mapping"].(map[string]any); ok {
				if t, ok := mp[key].(string); ok {
					target = t[strings.LastIndex(t, "/")+1:]
				}
			}
			for _, m := range members {
				_, chain := d.Doc.Deref(m)
				if len(chain) > 0 && chain[0] == target {
					walk(v, m, path, depth+1)
				}
			}
			return
		}
		switch t := v.(type) {
		case *jobj:
			k := oas.Kind(s)
			if k != "object" && k != "allOf" {
				return
			}
			ov, err := d.Doc.ObjectView(s)
			if err != nil {
				return
			}
			for _, key := range t.keys {
				ps, declared := ov.Props[key]
				if !declared {
					if ov.HasAddl {
						walk(t.vals[key], ov.Addl, append(append([]any{}, path...), key), depth+1)
					}
					continue
				}
				p := append(append([]any{}, path...), key)
				if ov.Required[key] {
					sites = append(sites, site{p, "drop-required", key, nil})
				}
				pss := d.Doc.Schema(ps)
				if t.vals[key] != nil {
					sites = append(sites, site{p, "wrong-type", key, pss})
					if d.WithNull {
						sites = append(sites, site{p, "null", key, pss})
					}
				}
				walk(t.vals[key], ps, p, depth+1)
			}
		case []any:
			if oas.Kind(s) != "array" {
				return
			}
			for i, e := range t {
				walk(e, s["items"], append(append([]any{}, path...), i), depth+1)
			}
		}
	}
	walk(doc, schemaNode, nil, 0)
	for _, st := range sites {
		c := cloneDoc(doc)
		// navigate to the parent
		var cur any = c
		okNav := true
		for _, p := range st.path[:len(st.path)-1] {
			switch t := cur.(type) {
			case *jobj:
				cur = t.vals[p.(string)]
			case []any:
				cur = t[p.(int)]
			default:
				okNav = false
			}
		}
		parent, isObj := cur.(*jobj)
		if !okNav || !isObj {
			continue
		}
		key := st.path[len(st.path)-1].(string)
		switch st.kind {
		case "drop-required":
			parent.del(key)
		case "wrong-type":
			wv, ok := d.wrongTyped(st.s)
			if !ok {
				continue
			}
			parent.vals[key] = wv
		case "null":
			parent.vals[key] = nil
		}
		out = append(out, struct {
			Doc   any
			Fault Fault
		}{c, Fault{Kind: st.kind, Property: key, Path: fmt.Sprint(st.path)}})
	}
	return out
}

var _ = time.Now

// Unions builds, for every oneOf without discriminator reachable from the
// schema through object properties, a document in which that position holds
// the union of all alternatives' properties (accepted by several of them).
func (d *DocGen) Unions(schemaNode any) []any {
	var out []any
	var build func(node any, depth int, at func(v any) any)
	build = func(node any, depth int, at func(v any) any) {
		s := d.Doc.Schema(node)
		if s == nil || depth > 4 {
			return
		}
		if members, ok := s["oneOf"].([]any); ok {
			if _, disc := s["discriminator"]; disc {
				return
			}
			u := &jobj{vals: map[string]any{}}
			for _, m := range members {
				ms := d.Doc.Schema(m)
				if ms == nil || (oas.Kind(ms) != "object" && oas.Kind(ms) != "allOf") {
					return
				}
				ov, err := d.Doc.ObjectView(ms)
				if err != nil {
					return
				}
				for _, k := range ov.Order {
					if _, dup := u.vals[k]; !dup && ov.Required[k] {
						u.set(k, d.Valid(ov.Props[k], depth+1))
					}
				}
			}
			out = append(out, at(u))
			return
		}
		k := oas.Kind(s)
		if k != "object" && k != "allOf" {
			return
		}
		ov, err := d.Doc.ObjectView(s)
		if err != nil {
			return
		}
		for _, pn := range ov.Order {
			pn := pn
			build(ov.Props[pn], depth+1, func(v any) any {
				doc, ok := d.Valid(node, depth).(*jobj)
				if !ok || doc == nil {
					doc = &jobj{vals: map[string]any{}}
				}
				doc.set(pn, v)
				return at(doc)
			})
		}
	}
	build(schemaNode, 0, func(v any) any { return v })
	return out
}
