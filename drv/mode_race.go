package drv

import (
	"context"
	"fmt"
	"io"
	"math/rand"
	"net/http"
	"reflect"
	"runtime"
	"strings"
	"sync"
	"sync/atomic"
	"time"

	"verif/oas"
)

func init() { modes["race"] = modeRace }

type raceIDKey struct{}

type yieldReader struct {
	r        io.Reader
	n        *int64
	closeErr error
}

func (y *yieldReader) Read(p []byte) (int, error) {
	if atomic.AddInt64(y.n, 1)%3 == 0 {
		runtime.Gosched()
	}
	if len(p) > 7 {
		p = p[:7] // short reads: more suspension points inside generated copy loops
	}
	return y.r.Read(p)
}

func (y *yieldReader) Close() error { return y.closeErr }

// collectTags walks a value and gathers every string and integer it holds.
func collectTags(v reflect.Value, strs map[string]bool, ints map[int64]bool, depth int) {
	if depth > 12 || !v.IsValid() {
		return
	}
	t := v.Type()
	if t == timeType || t == rawType {
		return
	}
	switch v.Kind() {
	case reflect.String:
		strs[v.String()] = true
	case reflect.Int, reflect.Int64, reflect.Int32:
		ints[v.Int()] = true
	case reflect.Struct:
		if isWrapper(t) {
			if v.Field(0).Bool() {
				collectTags(v.Field(1), strs, ints, depth+1)
			}
			return
		}
		for i := 0; i < v.NumField(); i++ {
			if t.Field(i).Name == "Code" {
				continue
			}
			collectTags(v.Field(i), strs, ints, depth+1)
		}
	case reflect.Slice, reflect.Array:
		for i := 0; i < v.Len(); i++ {
			collectTags(v.Index(i), strs, ints, depth+1)
		}
	case reflect.Map:
		for _, k := range v.MapKeys() {
			collectTags(v.MapIndex(k), strs, ints, depth+1)
		}
	case reflect.Pointer, reflect.Interface:
		if !v.IsNil() {
			if r, ok := v.Interface().(io.Reader); ok {
				bs, _ := io.ReadAll(r)
				strs[string(bs)] = true
				return
			}
			collectTags(v.Elem(), strs, ints, depth+1)
		}
	}
}

func tagMismatch(v reflect.Value, id int64, allowExtraKeys bool) string {
	strs, ints := map[string]bool{}, map[int64]bool{}
	collectTags(v, strs, ints, 0)
	want := fmt.Sprintf("req%d", id)
	for s := range strs {
		if s != want && !strings.HasPrefix(s, "extra_") && s != "" {
			// discriminator values are fixed keys of the spec
			if len(s) < 24 && !strings.HasPrefix(s, "req") {
				continue
			}
			return fmt.Sprintf("string %q where only %q may occur", trunc(s, 40), want)
		}
	}
	for n := range ints {
		if n != id && n != id%(1<<30) && n != 0 { // 0: the default element that makes an empty array expressible
			return fmt.Sprintf("integer %d where only %d may occur", n, id)
		}
	}
	return ""
}

// sharePool hands the same map / slice object to many concurrent requests:
// data an application keeps at package level (default settings, a tag list)
// and only ever reads. Generated code that writes to its inputs shows up as
// a race on these objects.
type sharePool struct {
	mu sync.Mutex
	m  map[reflect.Type]reflect.Value
	n  int64
}

func (p *sharePool) share(v reflect.Value, depth int) {
	if depth > 6 || !v.IsValid() {
		return
	}
	switch v.Kind() {
	case reflect.Struct:
		if v.Type() == timeType {
			return
		}
		for i := 0; i < v.NumField(); i++ {
			if f := v.Field(i); f.CanSet() {
				p.share(f, depth+1)
			}
		}
	case reflect.Map, reflect.Slice:
		if v.Len() == 0 || (v.Kind() == reflect.Slice && v.Type().Elem().Kind() == reflect.Uint8) {
			return
		}
		p.mu.Lock()
		if s, ok := p.m[v.Type()]; ok {
			v.Set(s)
			p.n++
		} else {
			p.m[v.Type()] = reflect.ValueOf(v.Interface())
		}
		p.mu.Unlock()
	}
}

// scribble overwrites the containers of a request value after the client
// call returned (a sender refilling one request value between calls).
func scribble(v reflect.Value, depth int) {
	if depth > 6 || !v.IsValid() {
		return
	}
	switch v.Kind() {
	case reflect.Struct:
		if v.Type() == timeType {
			return
		}
		for i := 0; i < v.NumField(); i++ {
			if f := v.Field(i); f.CanSet() {
				scribble(f, depth+1)
			}
		}
	case reflect.Map:
		if !v.IsNil() && v.Type().Key().Kind() == reflect.String {
			k := reflect.New(v.Type().Key()).Elem()
			k.SetString("written-after-return")
			v.SetMapIndex(k, reflect.Zero(v.Type().Elem()))
		}
	case reflect.Slice:
		if v.Len() > 0 && v.Index(0).CanSet() && v.Type().Elem().Kind() != reflect.Uint8 {
			scribble(v.Index(0), depth+1)
			v.Index(0).Set(reflect.Zero(v.Type().Elem()))
		}
	}
}

// modeRace (C20): many goroutines drive ONE API value and ONE Client value
// with per-request unique values; the process runs under the race detector.
func modeRace(c *Ctx) {
	if len(c.Ops) == 0 {
		return
	}
	var ops []*Op
	for _, op := range c.Ops {
		if op.Spec != nil && op.ClientM != nil {
			ops = append(ops, op)
		}
	}
	if len(ops) == 0 {
		c.Stat("no_client_ops", 1)
		return
	}
	for _, op := range ops {
		for _, ri := range uniqueImpls(op) {
			_ = ri
		}
	}
	implsOf := map[string][]*respImpl{}
	pool := &sharePool{m: map[reflect.Type]reflect.Value{}}
	var inflight, high, seq int64
	var yields int64
	var orderMu sync.Mutex
	var order []int64
	// handler: checks its own request's tag everywhere, answers with its tag everywhere
	api := c.NewAPI(func(op *Op) func(ctx context.Context, req reflect.Value) reflect.Value {
		return func(ctx context.Context, req reflect.Value) reflect.Value {
			n := atomic.AddInt64(&inflight, 1)
			for {
				h := atomic.LoadInt64(&high)
				if n <= h || atomic.CompareAndSwapInt64(&high, h, n) {
					break
				}
			}
			defer atomic.AddInt64(&inflight, -1)
			id, _ := ctx.Value(raceIDKey{}).(int64)
			orderMu.Lock()
			order = append(order, id)
			orderMu.Unlock()
			runtime.Gosched()
			if id%9 == 5 || id >= 1<<40 {
				// a handler that answers without looking at the request (the body stays unread)
				if impls := implsOf[op.Key]; len(impls) > 0 {
					ri := impls[int(id)%len(impls)]
					g := &Gen{Rng: rand.New(rand.NewSource(id)), Doc: c.Doc, Tag: fmt.Sprintf("req%d", id), TagInt: id, HasTagInt: true}
					v := c.fillResponse(g, ri, nil)
					if f := v.FieldByName("Code"); f.IsValid() && f.Kind() == reflect.Int {
						code := 599
						for isDocumented(op, code) {
							code--
						}
						f.SetInt(int64(code))
					}
					if b := v.FieldByName("Body"); b.IsValid() && (b.Type() == readerType || b.Type() == readCloserType) {
						yr := &yieldReader{r: strings.NewReader(fmt.Sprintf("req%d", id)), n: &yields}
						if b.Type() == readerType {
							b.Set(reflect.ValueOf(io.Reader(yr)))
						} else {
							b.Set(reflect.ValueOf(io.ReadCloser(yr)))
						}
					}
					return v
				}
				return reflect.Value{}
			}
			params, err := Parse(req)
			if atomic.AddInt64(&seq, 1)%5 == 0 {
				time.Sleep(time.Duration(id%7) * 10 * time.Microsecond)
			}
			if err != nil {
				c.Viol("isolation", "Parse() failed for a request built by the client under concurrency", fmt.Sprintf("%s id=%d", op.Key, id), "success", err.Error())
			} else if id%4 == 1 {
				// this request's body carries the shared read-only containers
			} else if d := tagMismatch(params, id, true); d != "" {
				c.Viol("isolation", "a handler observed a value that does not belong to its own request", fmt.Sprintf("%s id=%d", op.Key, id), fmt.Sprintf("only req%d / %d", id, id), d)
			}
			impls := implsOf[op.Key]
			if len(impls) == 0 {
				return reflect.Value{}
			}
			ri := impls[int(id)%len(impls)]
			g := &Gen{Rng: rand.New(rand.NewSource(id)), Doc: c.Doc, Tag: fmt.Sprintf("req%d", id), TagInt: id, HasTagInt: true}
			v := c.fillResponse(g, ri, nil)
			if f := v.FieldByName("Code"); f.IsValid() && f.Kind() == reflect.Int {
				code := 599
				for isDocumented(op, code) {
					code--
				}
				f.SetInt(int64(code))
			}
			if b := v.FieldByName("Body"); b.IsValid() && (b.Type() == readerType || b.Type() == readCloserType) {
				yr := &yieldReader{r: strings.NewReader(fmt.Sprintf("req%d", id)), n: &yields}
				if id%3 != 1 {
					// closing the body fails, with a text of this request's own: the
					// generated error paths (the shared LogError hook) run concurrently too
					yr.closeErr = fmt.Errorf("closing the body of req%d failed", id)
				}
				if b.Type() == readerType {
					b.Set(reflect.ValueOf(io.Reader(yr)))
				} else {
					b.Set(reflect.ValueOf(io.ReadCloser(yr)))
				}
			}
			if id%4 == 0 {
				if b := v.FieldByName("Body"); b.IsValid() && b.CanSet() {
					pool.share(b, 0)
				}
			}
			runtime.Gosched()
			return v
		}
	})
	for _, op := range ops {
		for _, ri := range uniqueImpls(op) {
			if !ri.Ptr {
				rid := ri
				// documented response of this implementer (sequential probe before the concurrent phase)
				implsOf[op.Key] = append(implsOf[op.Key], rid)
			}
		}
	}
	// probe sequentially which documented response each implementer is
	{
		e := c.newExerciser()
		for _, op := range ops {
			for _, ri := range implsOf[op.Key] {
				zero := reflect.New(ri.T).Elem()
				fillReaders(zero)
				isDef := hasCode(ri.T)
				if isDef {
					zero.FieldByName("Code").SetInt(599)
				}
				if w, pv := e.serve(op, zero); pv == nil {
					ri.Doc = docResponse(op, w.Status, isDef)
				}
			}
		}
	}
	c.installAcceptAllAuth(api)
	// authenticators with yield points
	for _, f := range c.securityFields() {
		fv := api.Elem().FieldByName(f)
		fv.Set(reflect.MakeFunc(fv.Type(), func(args []reflect.Value) []reflect.Value {
			runtime.Gosched()
			return []reflect.Value{args[0], reflect.ValueOf(true)}
		}))
	}
	mws := []func(http.Handler) http.Handler{
		func(next http.Handler) http.Handler {
			return http.HandlerFunc(func(w http.ResponseWriter, r *http.Request) {
				runtime.Gosched()
				next.ServeHTTP(w, r)
				runtime.Gosched()
			})
		},
		func(next http.Handler) http.Handler {
			return http.HandlerFunc(func(w http.ResponseWriter, r *http.Request) {
				if r.ContentLength%2 == 0 {
					time.Sleep(5 * time.Microsecond)
				}
				next.ServeHTTP(w, r)
			})
		},
	}
	// registered one by one, as applications do: the slice keeps spare capacity
	grown := make([]func(http.Handler) http.Handler, 0, 1)
	for _, m := range mws {
		grown = append(grown, m)
	}
	grown = append(grown, mws[0])
	c.SetField(api, "Middlewares", grown)
	if fn, ok := c.Reg.Funcs["SpecFileHandler"]; ok {
		c.SetField(api, "SpecFileHandler", reflect.ValueOf(fn).Call(nil)[0].Interface())
	}
	h := c.Handler(api)
	t := &tap{h: h}
	// the shared client: its transport serves through the shared API with a yielding writer
	ct, ok := c.Reg.Types["Client"]
	if !ok {
		return
	}
	cl := reflect.New(ct)
	cl.Elem().FieldByName("BaseURL").SetString("http://example.com" + c.Base)
	fnT := c.Reg.Types["HTTPClientFunc"]
	cl.Elem().FieldByName("HTTPClient").Set(reflect.MakeFunc(fnT, func(args []reflect.Value) []reflect.Value {
		r := args[0].Interface().(*http.Request)
		runtime.Gosched()
		if r.Body != nil {
			r.Body = &yieldReader{r: r.Body, n: &yields}
		} else {
			r.Body = http.NoBody
		}
		w := newRec()
		w.AfterHook = runtime.Gosched
		func() {
			defer func() {
				if p := recover(); p != nil {
					c.Viol("panic", "serving a request panicked under concurrency: "+firstLine(fmt.Sprint(p)), r.URL.Path, nil, nil)
				}
			}()
			t.h.ServeHTTP(w, r)
		}()
		if w.Frozen == nil {
			w.Frozen = http.Header{}
			w.Status = 200
		}
		resp := &http.Response{StatusCode: w.Status, Header: w.Frozen.Clone(), Body: &yieldReader{r: strings.NewReader(w.Body.String()), n: &yields}, Request: r}
		return []reflect.Value{reflect.ValueOf(resp), reflect.Zero(errType)}
	}))
	specWant := ""
	if k, ok := c.Reg.Consts["SpecFile"].(string); ok {
		specWant = k
	}
	G := c.Case.Int("goroutines", 32)
	R := c.Case.Int("requests", 60)
	var idSeq int64
	sigs := map[string]bool{}
	for _, procs := range []int{2, 4, 16} {
		prev := runtime.GOMAXPROCS(procs)
		orderMu.Lock()
		order = order[:0]
		orderMu.Unlock()
		var wg sync.WaitGroup
		// every phase starts with the documented default: no NotFoundHandler
		c.SetField(api, "NotFoundHandler", nil)
		start := make(chan struct{})
		if fn, ok := c.Reg.Funcs["SpecFileHandler"]; ok && specWant != "" {
			// meanwhile another API value is being assembled the documented way (a
			// second listener, a parallel test): the package's constructors are
			// called while this one serves
			wg.Add(1)
			go func() {
				defer wg.Done()
				<-start
				for i := 0; i < 40; i++ {
					_ = reflect.ValueOf(fn).Call(nil)
					c.Stat("spec_handlers_constructed_meanwhile", 1)
					runtime.Gosched()
					time.Sleep(50 * time.Microsecond)
				}
			}()
		}
		for gi := 0; gi < G; gi++ {
			wg.Add(1)
			go func(gi int) {
				defer wg.Done()
				rng := rand.New(rand.NewSource(c.Case.Seed*1000 + int64(gi) + int64(procs)*77))
				<-start
				if gi%2 == 0 {
					// the first requests of half the goroutines are unrouted ones, all at once
					w := newRec()
					h.ServeHTTP(w, NewRequest("GET", c.Base+"/no/such/path/anywhere/at/all", "", nil, nil))
					c.Stat("unrouted_requests", 1)
				}
				for i := 0; i < R; i++ {
					id := atomic.AddInt64(&idSeq, 1) + 1000
					if specWant != "" && rng.Intn(12) == 0 {
						// the spec route, concurrently with everything else
						w := newRec()
						h.ServeHTTP(w, NewRequest("GET", c.Base+"/"+c.Case.SpecName, "", nil, nil))
						c.Stat("spec_requests", 1)
						if w.Body.String() != specWant {
							c.Viol("isolation", "the spec route served something else than the spec under concurrency", "GET spec", len(specWant), w.Body.Len())
						}
						continue
					}
					if rng.Intn(15) == 0 {
						// unrouted requests (NotFoundHandler left nil) concurrently with everything else
						w := newRec()
						h.ServeHTTP(w, NewRequest("GET", c.Base+"/no/such/path/anywhere/at/all", "", nil, nil))
						c.Stat("unrouted_requests", 1)
						if w.Status != 404 {
							c.Viol("isolation", "an unrouted request was not answered 404 under concurrency", "GET /no/such/path/anywhere/at/all", 404, w.Status)
						}
						continue
					}
					op := ops[rng.Intn(len(ops))]
					g := &Gen{Rng: rng, Doc: c.Doc, Tag: fmt.Sprintf("req%d", id), TagInt: id, HasTagInt: true}
					var raw string
					params := c.genParams(g, op, &raw)
					if b := params.FieldByName("Body"); b.IsValid() && (b.Type() == readerType || b.Type() == readCloserType) {
						yr := &yieldReader{r: strings.NewReader(fmt.Sprintf("req%d", id)), n: &yields}
						if b.Type() == readerType {
							b.Set(reflect.ValueOf(io.Reader(yr)))
						} else {
							b.Set(reflect.ValueOf(io.ReadCloser(yr)))
						}
					}
					if id%4 == 1 {
						if b := params.FieldByName("Body"); b.IsValid() && b.CanSet() {
							pool.share(b, 0)
						}
					}
					ctx := context.WithValue(context.Background(), raceIDKey{}, id)
					outs := op.ClientM.Func.Call([]reflect.Value{cl, reflect.ValueOf(ctx), params})
					c.Stat("requests", 1)
					if id%4 != 1 {
						// the call has returned: the request value is the caller's again
						if b := params.FieldByName("Body"); b.IsValid() && b.CanSet() {
							scribble(b, 0)
						}
					}
					if e, ok := outs[1].Interface().(error); ok && e != nil {
						// ambiguous path values and undecodable defaults are outside the domain; count only
						c.Stat("client_errors", 1)
						continue
					}
					res := outs[0]
					for res.IsValid() && res.Kind() == reflect.Interface {
						res = res.Elem()
					}
					if !res.IsValid() {
						continue
					}
					if id%4 == 0 {
						// the handler answered with the shared read-only containers
					} else if d := tagMismatch(res, id, true); d != "" {
						c.Viol("isolation", "a caller received a response that does not belong to its request", fmt.Sprintf("%s id=%d", op.Key, id), fmt.Sprintf("only req%d / %d", id, id), d)
					}
				}
			}(gi)
		}
		close(start)
		wg.Wait()
		runtime.GOMAXPROCS(prev)
		orderMu.Lock()
		for i := 0; i+8 <= len(order); i += 8 {
			// relative arrival order inside a window of 8 handler entries
			w := order[i : i+8]
			sig := make([]byte, 0, 8)
			for a := range w {
				rank := 0
				for b := range w {
					if w[b] < w[a] {
						rank++
					}
				}
				sig = append(sig, byte('0'+rank))
			}
			sigs[string(sig)] = true
		}
		orderMu.Unlock()
	}
	// a second client value, configured with a trailing slash on its base URL and
	// shared from its very first call: only the race detector judges this phase
	// (whatever the calls answer, using a client must not write to it)
	{
		cl2 := reflect.New(ct)
		cl2.Elem().FieldByName("BaseURL").SetString("http://example.com" + c.Base + "/")
		cl2.Elem().FieldByName("HTTPClient").Set(cl.Elem().FieldByName("HTTPClient"))
		var wg sync.WaitGroup
		start := make(chan struct{})
		for gi := 0; gi < 8; gi++ {
			wg.Add(1)
			go func(gi int) {
				defer wg.Done()
				rng := rand.New(rand.NewSource(c.Case.Seed*7 + int64(gi)))
				<-start
				for i := 0; i < 6; i++ {
					op := ops[rng.Intn(len(ops))]
					id := atomic.AddInt64(&idSeq, 1) + 1<<40 // handlers answer these without looking
					g := &Gen{Rng: rng, Doc: c.Doc, Tag: fmt.Sprintf("req%d", id), TagInt: id % 1000, HasTagInt: true}
					params := c.genParams(g, op, nil)
					ctx := context.WithValue(context.Background(), raceIDKey{}, id)
					func() {
						defer func() { _ = recover() }()
						op.ClientM.Func.Call([]reflect.Value{cl2, reflect.ValueOf(ctx), params})
					}()
					c.Stat("trailing_slash_client_calls", 1)
				}
			}(gi)
		}
		close(start)
		wg.Wait()
	}
	c.mu.Lock()
	c.stats["inflight_high_water"] = int(atomic.LoadInt64(&high))
	c.stats["distinct_interleavings"] = len(sigs)
	c.stats["shared_container_uses"] = int(pool.n)
	c.stats["yield_points_hit"] = int(atomic.LoadInt64(&yields))
	c.mu.Unlock()
	c.Distinct("race:" + c.Case.ID)
	c.Sample(map[string]any{"goroutines": G, "requests_per_goroutine": R, "gomaxprocs": []int{2, 4, 16}, "inflight_high_water": high, "distinct_interleavings": len(sigs)})
}

var _ = oas.Kind
