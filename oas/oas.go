// Package oas is a tiny, independent model of the OpenAPI 3.0 dialect used by
// the verification corpus. It works on the generic JSON tree of a document and
// knows nothing about goag's own specification package.
package oas

import (
	"encoding/json"
	"fmt"
	"net/url"
	"sort"
	"strings"
)

type M = map[string]any
type L = []any

type Doc struct {
	Root M
}

func Parse(bs []byte) (*Doc, error) {
	var root M
	if err := json.Unmarshal(bs, &root); err != nil {
		return nil, err
	}
	return &Doc{Root: root}, nil
}

func asM(v any) M {
	m, _ := v.(M)
	return m
}

func asL(v any) L {
	l, _ := v.(L)
	return l
}

func str(v any) string {
	s, _ := v.(string)
	return s
}

// SortedKeys returns the keys of m in sorted order.
func SortedKeys(m M) []string {
	ks := make([]string, 0, len(m))
	for k := range m {
		ks = append(ks, k)
	}
	sort.Strings(ks)
	return ks
}

// Deref follows "$ref" chains ("#/components/<kind>/<name>") and returns the
// final node together with the names met on the way (outermost first).
func (d *Doc) Deref(v any) (M, []string) {
	var chain []string
	for i := 0; i < 32; i++ {
		m := asM(v)
		if m == nil {
			return nil, chain
		}
		ref, ok := m["$ref"].(string)
		if !ok {
			return m, chain
		}
		parts := strings.Split(strings.TrimPrefix(ref, "#/"), "/")
		var cur any = d.Root
		for _, p := range parts {
			p = strings.ReplaceAll(strings.ReplaceAll(p, "~1", "/"), "~0", "~")
			cm := asM(cur)
			if cm == nil {
				return nil, chain
			}
			cur = cm[p]
		}
		chain = append(chain, parts[len(parts)-1])
		v = cur
	}
	return nil, chain
}

// BasePath is the base path beneath which the API is served: the flag when
// given, else the path of servers[0].url after substituting variable
// defaults. A single trailing slash is insignificant.
func (d *Doc) BasePath(flag string) string {
	bp := flag
	if bp == "" {
		servers := asL(d.Root["servers"])
		if len(servers) > 0 {
			s := asM(servers[0])
			raw := str(s["url"])
			for k, v := range asM(s["variables"]) {
				if def, ok := asM(v)["default"].(string); ok {
					raw = strings.ReplaceAll(raw, "{"+k+"}", def)
				}
			}
			if u, err := url.Parse(raw); err == nil {
				bp = u.Path
			}
		}
	}
	return strings.TrimSuffix(bp, "/")
}

var Methods = []string{"get", "put", "post", "delete", "options", "head", "patch", "trace"}

type Param struct {
	Name     string
	In       string
	Required bool
	Schema   M // dereferenced schema
	RawSchem any
	Level    string // "path-item" or "operation"
	ViaRef   bool   // parameter object was a $ref
}

type Header struct {
	Name     string
	Required bool
	Schema   M
}

type Response struct {
	Status      string // "200", "default"
	Node        M
	Headers     []Header
	ContentType string   // "" when no content
	MediaTypes  []string // every declared media type, sorted
	Schema      M        // dereferenced; nil when no JSON schema
	JSON        bool
	RefChain    []string
}

type Body struct {
	Required    bool
	ContentType string
	Schema      M
	RawSchema   any
	JSON        bool
}

type Operation struct {
	Path      string
	Method    string // upper case
	Node      M
	PathItem  M
	ID        string
	Params    []Param
	Body      *Body
	Responses []Response
}

func (o Operation) Key() string { return o.Method + " " + o.Path }

func (d *Doc) Paths() []string {
	return SortedKeys(asM(d.Root["paths"]))
}

func (d *Doc) param(v any, level string) (Param, bool) {
	raw := asM(v)
	_, viaRef := raw["$ref"]
	m, _ := d.Deref(v)
	if m == nil {
		return Param{}, false
	}
	p := Param{Name: str(m["name"]), In: str(m["in"]), Level: level, ViaRef: viaRef, RawSchem: m["schema"]}
	p.Required, _ = m["required"].(bool)
	p.Schema, _ = d.Deref(m["schema"])
	return p, true
}

// Operations lists every operation with effective parameters (path-item level
// parameters overridden in place by operation parameters with the same
// name and location).
func (d *Doc) Operations() []Operation {
	var out []Operation
	paths := asM(d.Root["paths"])
	for _, p := range SortedKeys(paths) {
		pi, _ := d.Deref(paths[p])
		if pi == nil {
			continue
		}
		for _, meth := range Methods {
			on := asM(pi[meth])
			if on == nil {
				continue
			}
			op := Operation{Path: p, Method: strings.ToUpper(meth), Node: on, PathItem: pi, ID: str(on["operationId"])}
			var params []Param
			for _, v := range asL(pi["parameters"]) {
				if pp, ok := d.param(v, "path-item"); ok {
					params = append(params, pp)
				}
			}
			for _, v := range asL(on["parameters"]) {
				pp, ok := d.param(v, "operation")
				if !ok {
					continue
				}
				replaced := false
				for i := range params {
					if params[i].Name == pp.Name && params[i].In == pp.In {
						params[i] = pp
						replaced = true
					}
				}
				if !replaced {
					params = append(params, pp)
				}
			}
			op.Params = params
			if rb := on["requestBody"]; rb != nil {
				bm, _ := d.Deref(rb)
				if bm != nil {
					b := &Body{}
					b.Required, _ = bm["required"].(bool)
					content := asM(bm["content"])
					if mt, ok := content["application/json"]; ok {
						b.ContentType = "application/json"
						b.JSON = true
						b.RawSchema = asM(mt)["schema"]
						b.Schema, _ = d.Deref(b.RawSchema)
					} else {
						for _, k := range SortedKeys(content) {
							b.ContentType = k
							break
						}
					}
					op.Body = b
				}
			}
			resps := asM(on["responses"])
			for _, st := range SortedKeys(resps) {
				rn, chain := d.Deref(resps[st])
				if rn == nil {
					continue
				}
				r := Response{Status: st, Node: rn, RefChain: chain}
				hs := asM(rn["headers"])
				for _, hn := range SortedKeys(hs) {
					hm, _ := d.Deref(hs[hn])
					h := Header{Name: hn}
					if hm != nil {
						h.Required, _ = hm["required"].(bool)
						h.Schema, _ = d.Deref(hm["schema"])
					}
					r.Headers = append(r.Headers, h)
				}
				content := asM(rn["content"])
				r.MediaTypes = SortedKeys(content)
				if mt, ok := content["application/json"]; ok {
					r.ContentType = "application/json"
					r.JSON = true
					r.Schema, _ = d.Deref(asM(mt)["schema"])
				} else {
					for _, k := range SortedKeys(content) {
						r.ContentType = k
						break
					}
				}
				op.Responses = append(op.Responses, r)
			}
			out = append(out, op)
		}
	}
	return out
}

// ---- security ---------------------------------------------------------

type Scheme struct {
	Key    string // name in components.securitySchemes
	Type   string // http, apiKey, oauth2, openIdConnect
	Scheme string // bearer, basic (http)
	In     string // header, query, cookie (apiKey)
	Name   string // header / query name (apiKey)
}

// Supported says whether goag documents support for this scheme kind.
func (s Scheme) Supported() bool {
	switch s.Type {
	case "http":
		return strings.EqualFold(s.Scheme, "bearer")
	case "apiKey":
		return s.In == "header" || s.In == "query"
	}
	return false
}

func (d *Doc) Schemes() map[string]Scheme {
	out := map[string]Scheme{}
	ss := asM(asM(d.Root["components"])["securitySchemes"])
	for k, v := range ss {
		m, _ := d.Deref(v)
		out[k] = Scheme{Key: k, Type: str(m["type"]), Scheme: str(m["scheme"]), In: str(m["in"]), Name: str(m["name"])}
	}
	return out
}

// EffectiveSecurity returns the alternatives (OR) of scheme-name sets (AND)
// for the operation: its own list when present (an empty list = public),
// else the global one. nil/empty = public.
func (d *Doc) EffectiveSecurity(op Operation) [][]string {
	conv := func(v any) [][]string {
		var out [][]string
		for _, alt := range asL(v) {
			out = append(out, SortedKeys(asM(alt)))
		}
		return out
	}
	if v, ok := op.Node["security"]; ok {
		return conv(v)
	}
	return conv(d.Root["security"])
}

// ---- schemas ----------------------------------------------------------

// Schema dereferences a schema node.
func (d *Doc) Schema(v any) M {
	m, _ := d.Deref(v)
	return m
}

// Kind classifies a (dereferenced) schema.
func Kind(s M) string {
	if s == nil {
		return "none"
	}
	if _, ok := s["allOf"]; ok {
		return "allOf"
	}
	if _, ok := s["oneOf"]; ok {
		return "oneOf"
	}
	t := str(s["type"])
	f := str(s["format"])
	switch t {
	case "":
		return "any"
	case "string":
		if f == "date-time" {
			return "date-time"
		}
		return "string"
	case "integer":
		if f == "int32" || f == "int64" {
			return f
		}
		return "integer"
	case "number":
		if f == "float" {
			return "float"
		}
		return "number"
	}
	return t // boolean, array, object
}

func IsNullable(s M) bool {
	b, _ := s["nullable"].(bool)
	return b
}

// ObjectView flattens an object or allOf schema into declared properties,
// the required set and the additionalProperties schema (nil, true→M{}, or schema).
type ObjectView struct {
	Props    map[string]any // raw (possibly $ref) property schemas
	Order    []string
	Required map[string]bool
	Addl     any // nil = not declared; otherwise raw schema (M{} for `true`)
	HasAddl  bool
}

func (d *Doc) ObjectView(s M) (ObjectView, error) {
	ov := ObjectView{Props: map[string]any{}, Required: map[string]bool{}}
	var walk func(s M, depth int) error
	walk = func(s M, depth int) error {
		if depth > 16 {
			return fmt.Errorf("allOf too deep")
		}
		if all, ok := s["allOf"]; ok {
			for _, m := range asL(all) {
				ms := d.Schema(m)
				if ms == nil {
					return fmt.Errorf("bad allOf member")
				}
				if err := walk(ms, depth+1); err != nil {
					return err
				}
			}
			// the composition's own keywords (properties / required /
			// additionalProperties next to allOf) apply as well
		}
		for _, k := range SortedKeys(asM(s["properties"])) {
			if _, dup := ov.Props[k]; !dup {
				ov.Order = append(ov.Order, k)
			}
			ov.Props[k] = asM(s["properties"])[k]
		}
		for _, r := range asL(s["required"]) {
			ov.Required[str(r)] = true
		}
		if ap, ok := s["additionalProperties"]; ok {
			switch t := ap.(type) {
			case bool:
				if t {
					ov.HasAddl = true
					ov.Addl = M{}
				}
			case M:
				ov.HasAddl = true
				ov.Addl = t
			}
		}
		return nil
	}
	err := walk(s, 0)
	return ov, err
}
